#!/bin/sh
# usage: tools_sweep.sh quick|thorough [seeds...]   -> one line per check and seed
tier=${1:-quick}; shift
seeds=${*:-0}
cd /verif
for s in $seeds; do
  for i in 01 02 03 04 05 06 07 08 09 10 11 12 13 14 15 16 17 18 19 20; do
    VERIF_SEED=$s ./check C$i --tier $tier > /tmp/sweep_C${i}_$s.txt 2>&1
    rc=$?
    echo "seed=$s rc=$rc $(head -1 /tmp/sweep_C${i}_$s.txt | cut -c1-140)"
    grep "^VIOLATION\|^INCONCLUSIVE" /tmp/sweep_C${i}_$s.txt | head -3
  done
done
