#!/usr/bin/env python3
"""Run the repository's baseline test command (hooks off) and compare with BASELINE.json.

Usage: tools_baseline.py [junit.xml]   (runs pytest when no file is given)
Exit 0 when every stable_pass test of the baseline passed.
"""
import json
import subprocess
import sys
import tempfile
import xml.etree.ElementTree as ET

base = json.load(open("/root/.vp/BASELINE.json"))
if len(sys.argv) > 1:
    xml = sys.argv[1]
else:
    xml = tempfile.mktemp(suffix=".xml")
    cmd = base["cmd"].replace("<file>", xml)
    subprocess.run(cmd, shell=True, stdout=subprocess.DEVNULL, stderr=subprocess.DEVNULL)
passed = set()
failed = set()
for tc in ET.parse(xml).getroot().iter("testcase"):
    name = f"{tc.get('classname')}::{tc.get('name')}"
    bad = any(child.tag in ("failure", "error") for child in tc)
    skipped = any(child.tag == "skipped" for child in tc)
    if bad:
        failed.add(name)
    elif not skipped:
        passed.add(name)
stable = set(base["stable_pass"])
missing = sorted(stable - passed)
print(f"stable_pass={len(stable)} passed_now={len(passed)} failed_now={len(failed)} "
      f"stable_not_passing={len(missing)}")
for name in missing[:20]:
    print("  NOT PASSING:", name)
sys.exit(1 if missing else 0)
