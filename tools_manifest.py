#!/usr/bin/env python3
"""Regenerate MANIFEST.json from the table below (run after adding or removing a check)."""

import json
import os

HERE = os.path.dirname(os.path.abspath(__file__))

BASELINE = (
    "cd /repo && /venv/bin/python -m pytest -ra -q -p no:cacheprovider --timeout=900 "
    "--continue-on-collection-errors"
)

# id: (level category, technique, level text, level note, design ref)
CHECKS = {}
NOT_APPLICABLE = {}


def load():
    with open(os.path.join(HERE, "manifest_table.json")) as fh:
        table = json.load(fh)
    return table


def main():
    table = load()
    props = [json.loads(line)["id"] for line in open(os.path.join(HERE, "properties.jsonl"))]
    checks = []
    for pid in props:
        entry = table["checks"].get(pid)
        if entry is None:
            continue
        checks.append({
            "property_id": pid,
            "quick_cmd": f"./check {pid} --tier quick",
            "thorough_cmd": f"./check {pid} --tier thorough",
            "evidence_file": f"/verif/evidence/{pid}.json",
            "replay_cmd_template": f"./check {pid} --replay {{path}}",
            "engine": entry.get("engine", "vmon"),
            "level_claimed": {
                "category": entry["category"],
                "text": entry["text"],
                "design_ref": entry.get("design_ref", f"DESIGN.md section 3, {pid}"),
            },
            "level_note": entry["note"],
            "technique": entry["technique"],
        })
    not_applicable = [
        {"property_id": pid, "reason": table["not_applicable"].get(pid, "check not built yet")}
        for pid in props if pid not in table["checks"]
    ]
    manifest = {
        "version": 1,
        "setup_cmd": "true",
        "hooks": {
            "guard": "STEPUP_CORE_VERIF",
            "enable": "no source hooks in /repo: monitors are applied by wrapping functions of the "
                      "imported modules in-process, or through /verif/vmon/sitehook on PYTHONPATH "
                      "(active only when STEPUP_CORE_VERIF=1) for command-line runs",
            "baseline_off_cmd": BASELINE,
            "source_commits": table.get("source_commits", []),
            "add_only": True,
        },
        "engines": table.get("engines", []),
        "checks": checks,
        "not_applicable": not_applicable,
        "notes": table.get("notes", ""),
    }
    with open(os.path.join(HERE, "MANIFEST.json"), "w") as fh:
        json.dump(manifest, fh, indent=1)
        fh.write("\n")
    print(f"{len(checks)} checks, {len(not_applicable)} not applicable")


if __name__ == "__main__":
    main()
