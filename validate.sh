#!/bin/sh
# Validate MANIFEST.json and every evidence file against the schemas.
python3-vt - <<'PY'
import json, jsonschema, glob
jsonschema.validate(json.load(open('/verif/MANIFEST.json')), json.load(open('/root/.vp/MANIFEST.schema.json')))
es = json.load(open('/root/.vp/EVIDENCE.schema.json'))
for p in sorted(glob.glob('/verif/evidence/*.json')):
    jsonschema.validate(json.load(open(p)), es)
    print('ok', p)
print('manifest ok')
PY
