import json, os, random, shutil, sys, tempfile
sys.path.insert(0, "/repo"); sys.path.insert(0, "/verif")
from vmon.checks import c01
from vmon import gen, harness as H, invariants as I
seed = int(sys.argv[1]); want_h = int(sys.argv[2]); pat = sys.argv[3]
rng = random.Random(seed)
base = tempfile.mkdtemp(prefix="invdbg"); os.chdir(base)
def vio(*a): pass
def tracer(mon, prev, snap, tx):
    if snap is None: return
    rows = []
    for i, st in snap["step"].items():
        lab = snap["node"][i][1]
        if pat in lab or any(pat in snap["node"][c][1] for c in [i] if False):
            cr = snap["node"][i][2]
            crs = snap["step"].get(cr)
            rows.append((lab[:30], I.STATE_NAME[st["state"]], "safe", st["_safe"], st["_safe_ignoring_hold"], "chk", st["_check_safe"], "hash", st["_has_hash"], "det", snap["node"][i][3],
                         "CREATOR", (snap["node"][cr][1][:25], I.STATE_NAME[crs["state"]], "hold", crs["_holding"], "safe", crs["_safe"], "chk", crs["_check_safe"]) if crs else cr))
    print(f"  tx{tx.index} {tx.task_name[:40]:40s} pop={tx.is_pop} w={tx.writes}", rows)
orig_make = I.make_monitor
def make(*a, **k):
    mon = orig_make(*a, **k)
    mon.checkers.append(tracer)
    return mon
found = []
def collect(mon, build, what):
    print("=====", what)
    for f in mon.findings: print("FINDING", f[0], f[1][:300])
ctx = {"counters": {"final_compared":0}, "vio": vio, "collect": collect}
for h in range(want_h+1):
    os.makedirs(f"h{h}"); os.chdir(f"h{h}")
    spec = gen.gen_project(rng); phases = gen.gen_history(rng, spec)
    if h == want_h:
        I.make_monitor = make
    c01.run_history(ctx, rng, spec, phases)
    os.chdir(base)
shutil.rmtree(base, ignore_errors=True)
