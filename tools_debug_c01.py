"""Debug helper: run one C01 case and print a unified diff of the two graphs."""
import difflib, json, os, random, shutil, sys, tempfile
sys.path.insert(0, "/verif"); sys.path.insert(0, os.environ.get("VERIF_REPO", "/repo"))
from vmon.checks import c01
from vmon import gen, harness as H

def main():
    seed = int(sys.argv[1]); hsel = int(sys.argv[2]) if len(sys.argv) > 2 else None
    rng = random.Random(seed)
    base = tempfile.mkdtemp(prefix="c01dbg")
    os.chdir(base)
    orig = c01.compare_final
    def compare(ctx, spec, env, label, witness):
        text_i, globs_i = H.graph_text(attached_only=True)
        outs_i = c01.tree_outputs(".")
        scratch = os.path.join(base, "scratch")
        shutil.rmtree(scratch, ignore_errors=True)
        b_s, text_s, globs_s, outs_s = c01.build_scratch(spec, scratch, env)
        print("=== ", label, "scratch rc", b_s.returncode, b_s.error)
        for l in difflib.unified_diff(text_s.split("\n"), text_i.split("\n"), "scratch", "incremental", n=2, lineterm=""):
            print(l[:300])
        d = {p for p in set(outs_i)|set(outs_s) if outs_i.get(p)!=outs_s.get(p)}
        print("file diffs", sorted(d))
        print("phases:", witness["phases"])
        return orig(ctx, spec, env, label, witness)
    c01.compare_final = compare
    case = {"id": f"dbg-{seed}", "seed": seed, "nhist": 4}
    if len(sys.argv) > 3:
        case = {"id": "dbg", "seed": 0, "scenario": sys.argv[3]}
    res = c01.run_case(case)
    for v in res["violations"]:
        print("VIOL", v["mechanism"], "\n   ", v["message"][:600])
    print(res["counters"])
    shutil.rmtree(base, ignore_errors=True)
main()
