#!/bin/sh
# usage: selftest/confirm_seed.sh <worktree> <seed-id>
# Confirms a breaking change written by an independent agent before it is kept under seeded/<seed-id>/:
# the demonstration fails with the change and passes on an export of /repo's HEAD, and the
# repository's unit tests (without the slow example runs) still pass with the change.
wt=$1; sid=$2
here="$(cd "$(dirname "$0")/.." && pwd)"
clean=$(mktemp -d /tmp/confirm-clean-XXXXXX)
git -C /repo archive HEAD | tar -x -C "$clean"
git -C "$wt" diff -- stepup > "$wt.patch.confirm"
[ -s "$wt.patch.confirm" ] || { echo "no change in $wt"; exit 2; }
(cd "$wt" && PATH=/venv/bin:$PATH timeout 600 bash ./demo.sh "$wt" > "$wt.demo_changed.log" 2>&1); rc_changed=$?
(cd "$clean" && PATH=/venv/bin:$PATH timeout 600 bash "$wt/demo.sh" "$clean" > "$wt.demo_clean.log" 2>&1); rc_clean=$?
(cd "$wt" && PYTHONPATH="$wt" timeout 1500 /venv/bin/python -m pytest tests -q -p no:cacheprovider --timeout=900 -n 8 \
   --deselect tests/test_examples.py --deselect tests/test_interrupt.py > "$wt.tests.log" 2>&1); rc_tests=$?
if [ $rc_tests -ne 0 ]; then
  # wall-clock assertions (tests/test_pending.py::test_scale_smoke) fail on a loaded machine: run what failed once more, alone
  failed=$(grep "^FAILED " "$wt.tests.log" | awk '{print $2}')
  [ -n "$failed" ] && (cd "$wt" && PYTHONPATH="$wt" timeout 900 /venv/bin/python -m pytest $failed -q -p no:cacheprovider --timeout=900 >> "$wt.tests.log" 2>&1) && rc_tests=0
fi
echo "demo with change rc=$rc_changed (want non-zero); demo on HEAD rc=$rc_clean (want 0); tests rc=$rc_tests: $(tail -1 "$wt.tests.log")"
rm -rf "$clean"
if [ $rc_changed -ne 0 ] && [ $rc_clean -eq 0 ] && [ $rc_tests -eq 0 ]; then
  mkdir -p "$here/seeded/$sid"
  cp "$wt.patch.confirm" "$here/seeded/$sid/patch.diff"
  cp "$wt/demo.sh" "$here/seeded/$sid/demo.sh"
  echo "confirmed -> seeded/$sid"
else
  echo "NOT confirmed"; exit 1
fi
