#!/usr/bin/env python3
"""Run the checks against the seeded breaking changes under /verif/seeded/<ID>/.

usage: selftest/seeded.py [ID ...] [--all-checks]

For every seeded/<ID>/patch.diff: export /repo's HEAD to a scratch directory, apply the patch,
run `./check <ID>` (quick, then thorough when quick stays silent) with VERIF_REPO pointing at the
scratch tree, and record the outcome in seeded/<ID>/meta.json (`caught_by`, `mechanisms`).
With --all-checks every other check is run (quick) as well, to see which ones also notice.
"""
import json
import os
import re
import shutil
import subprocess
import sys
import tempfile

VERIF = os.path.dirname(os.path.dirname(os.path.abspath(__file__)))
REPO = "/repo"
ALL = [f"C{i:02d}" for i in range(1, 21)]


def run_check(check, tree, tier):
    env = dict(os.environ, VERIF_REPO=tree)
    try:
        proc = subprocess.run([os.path.join(VERIF, "check"), check, "--tier", tier], env=env,
                              capture_output=True, text=True, timeout=int(os.environ.get("SEEDED_TIMEOUT", "1500")))
    except subprocess.TimeoutExpired:
        return 124, ["timeout"]
    mechs = sorted(set(re.findall(r"^  mechanism: (.*)$", proc.stdout, re.M)))
    return proc.returncode, mechs


def main():
    args = [a for a in sys.argv[1:] if not a.startswith("--")]
    all_checks = "--all-checks" in sys.argv
    ids = args or sorted(d for d in os.listdir(os.path.join(VERIF, "seeded"))
                         if os.path.exists(os.path.join(VERIF, "seeded", d, "patch.diff")))
    for sid in ids:
        sdir = os.path.join(VERIF, "seeded", sid)
        prop = sid[:3]
        tmp = tempfile.mkdtemp(prefix="seeded-", dir="/tmp")
        try:
            subprocess.run(f"git -C {REPO} archive HEAD | tar -x -C {tmp}", shell=True, check=True)
            ap = subprocess.run(["git", "apply", "--directory", tmp, "--unsafe-paths",
                                 os.path.join(sdir, "patch.diff")], cwd=tmp, capture_output=True, text=True)
            if ap.returncode != 0:
                ap = subprocess.run(["patch", "-p1", "-d", tmp, "-i", os.path.join(sdir, "patch.diff")],
                                    capture_output=True, text=True)
            if ap.returncode != 0:
                print(f"{sid}: patch does not apply: {ap.stderr[-300:]} {ap.stdout[-300:]}")
                continue
            result = {}
            rc, mechs = run_check(prop, tmp, "quick")
            result[prop] = {"quick": rc, "mechanisms": mechs}
            if rc != 1:
                rc2, mechs2 = run_check(prop, tmp, "thorough")
                result[prop]["thorough"] = rc2
                result[prop]["mechanisms"] = mechs2
            if all_checks:
                for other in ALL:
                    if other != prop:
                        rco, mo = run_check(other, tmp, "quick")
                        if rco == 1:
                            result[other] = {"quick": rco, "mechanisms": mo}
            caught = sorted(c for c, r in result.items() if 1 in (r.get("quick"), r.get("thorough")))
            meta_path = os.path.join(sdir, "meta.json")
            meta = json.load(open(meta_path)) if os.path.exists(meta_path) else {}
            meta["caught_by"] = caught
            meta["check_results"] = result
            json.dump(meta, open(meta_path, "w"), indent=1)
            print(f"{sid}: caught_by={caught} {json.dumps(result)[:300]}")
        finally:
            shutil.rmtree(tmp, ignore_errors=True)


if __name__ == "__main__":
    main()
