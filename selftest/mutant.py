#!/venv/bin/python
"""Run one check against a scratch copy of the repository with a deliberate break.

Usage: selftest/mutant.py <ID> <file relative to repo> <old text> <new text> [--tier quick]
   or: selftest/mutant.py --table [name-filter]     run every entry of selftest/mutants.json

The copy lives under ${VERIF_SCRATCH:-/tmp} and is removed afterwards; /repo is never touched.
Exit status: 0 when the check reported a violation (the break was caught), 1 otherwise.
"""

import json
import os
import shutil
import subprocess
import sys
import tempfile

VERIF = os.path.dirname(os.path.dirname(os.path.abspath(__file__)))


def run_mutant(check, relpath, old, new, tier="quick", count=1, extra_env=None):
    scratch = tempfile.mkdtemp(prefix="verif-mut-", dir=os.environ.get("VERIF_SCRATCH", "/tmp"))
    try:
        shutil.copytree("/repo/stepup", os.path.join(scratch, "stepup"))
        # the example projects are test data (never mutated): visible through a link, so the checks
        # that build them (C02 plans, C09/C10 mode C) run the same cases as on /repo
        os.symlink("/repo/tests", os.path.join(scratch, "tests"))
        path = os.path.join(scratch, relpath)
        with open(path) as fh:
            text = fh.read()
        if text.count(old) < 1:
            return None, f"pattern not found in {relpath}"
        text = text.replace(old, new, count)
        with open(path, "w") as fh:
            fh.write(text)
        env = dict(os.environ, VERIF_REPO=scratch, VERIF_MUTANT="1")
        env.update(extra_env or {})
        try:
            proc = subprocess.run(
                [os.path.join(VERIF, "check"), check, "--tier", tier],
                env=env, capture_output=True, text=True, timeout=int(os.environ.get('MUTANT_TIMEOUT', '1500')),
            )
        except subprocess.TimeoutExpired:
            return "timeout", "check did not finish in time"
        if proc.returncode not in (0, 1, 2):
            return f"crash({proc.returncode})", (proc.stdout + proc.stderr)[-3000:]
        if "Traceback (most recent call last)" in proc.stderr and "VIOLATION" not in proc.stdout:
            return "crash", (proc.stdout + proc.stderr)[-3000:]
        return proc.returncode, proc.stdout[-3000:]
    finally:
        shutil.rmtree(scratch, ignore_errors=True)


def main():
    if sys.argv[1] == "--table":
        flt = sys.argv[2] if len(sys.argv) > 2 else ""
        with open(os.path.join(VERIF, "selftest", "mutants.json")) as fh:
            table = json.load(fh)
        bad = 0
        for entry in table:
            if flt and flt not in entry["name"] and flt != entry["check"]:
                continue
            rc, out = run_mutant(entry["check"], entry["file"], entry["old"], entry["new"],
                                 entry.get("tier", "quick"))
            expect = entry.get("expect", "caught")
            caught = (rc == 1) if expect == "caught" else (rc == 0)
            mech = [line for line in (out or "").splitlines() if "mechanism:" in line][:1]
            print(f"{entry['check']} {entry['name']}: rc={rc} "
                  f"{('CAUGHT' if expect == 'caught' else 'SILENT-AS-EXPECTED') if caught else 'MISSED'} {mech[0].strip() if mech else ''}", flush=True)
            if not caught:
                bad += 1
                if rc is None:
                    print("   ", out)
        sys.exit(1 if bad else 0)
    check, relpath, old, new = sys.argv[1:5]
    rc, out = run_mutant(check, relpath, old, new)
    print(out)
    print("rc", rc)
    sys.exit(0 if rc == 1 else 1)


if __name__ == "__main__":
    main()
