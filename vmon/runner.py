"""E9: runner, evidence, replay and known findings.

A check module (vmon/checks/cNN.py) provides:

    PROPERTY = "C13"
    LEVEL = "exploration"            # evidence level
    RULE = "..."                     # what distinct_nontrivial counts
    def gen_cases(tier, seed) -> list[dict]          # JSON-serialisable case descriptors
    def run_case(case) -> dict                       # executed in a worker process

`run_case` returns a dict with
    status      "held" | "violation" | "inconclusive"
    nontrivial  None or a JSON value: the key that `distinct_nontrivial` counts
    counters    {name: int} monitor and reach counters (summed over cases)
    sets        {name: [values]} optional, union-ed over cases (distinct things seen)
    violations  [ {mechanism, message, witness} ]    when status == "violation"
    sample      optional small JSON value shown in the evidence file

Optional module attributes:
    TIMEOUT = seconds per case (default 120)
    REQUIRED_COUNTERS = [names]  a run in which one of these sums to zero is INCONCLUSIVE
    def finish(agg, tier, seed) -> None  may add to agg before evidence is written
"""

from __future__ import annotations

import hashlib
import importlib
import json
import os
import queue
import select
import shutil
import signal
import subprocess
import sys
import threading
import time

VERIF = os.path.dirname(os.path.dirname(os.path.abspath(__file__)))
PY = "/venv/bin/python"


def repo_path() -> str:
    return os.environ.get("VERIF_REPO", "/repo")


def load_known_findings():
    path = os.path.join(VERIF, "known_findings.json")
    if not os.path.exists(path):
        return []
    with open(path) as fh:
        return json.load(fh)["findings"]


class Worker:
    """One worker subprocess that runs cases of one check sequentially."""

    def __init__(self, check: str, scratch: str, idx: int):
        self.check = check
        self.scratch = os.path.join(scratch, f"w{idx}")
        os.makedirs(self.scratch, exist_ok=True)
        self.proc = None
        self.start()

    def start(self):
        env = dict(os.environ)
        env["PYTHONHASHSEED"] = "0"
        env["PYTHONPATH"] = os.pathsep.join(
            [repo_path(), VERIF] + ([env["PYTHONPATH"]] if env.get("PYTHONPATH") else [])
        )
        env["VERIF_WORKER_SCRATCH"] = self.scratch
        env.setdefault("PATH", "/usr/bin:/bin")
        if "/venv/bin" not in env["PATH"].split(os.pathsep):
            env["PATH"] = "/venv/bin" + os.pathsep + env["PATH"]
        # Make sure a stepup run inside a worker never inherits a director from outside.
        for name in list(env):
            if name.startswith("STEPUP_") and name not in ("STEPUP_CORE_VERIF",):
                del env[name]
        self.proc = subprocess.Popen(
            [PY, "-m", "vmon.worker", self.check],
            stdin=subprocess.PIPE,
            stdout=subprocess.PIPE,
            stderr=subprocess.DEVNULL if not os.environ.get("VERIF_DEBUG") else None,
            env=env,
            cwd=self.scratch,
            start_new_session=True,
        )
        self.buf = b""

    def kill(self):
        if self.proc is not None:
            try:
                os.killpg(self.proc.pid, signal.SIGKILL)
            except (ProcessLookupError, PermissionError):
                pass
            try:
                self.proc.wait(timeout=10)
            except Exception:
                pass
            for fh in (self.proc.stdin, self.proc.stdout):
                try:
                    fh.close()
                except Exception:
                    pass
            self.proc = None

    def run(self, case: dict, timeout: float) -> dict:
        if self.proc is None or self.proc.poll() is not None:
            self.kill()
            self.start()
        try:
            self.proc.stdin.write(json.dumps(case).encode() + b"\n")
            self.proc.stdin.flush()
        except (BrokenPipeError, OSError):
            self.kill()
            return {"status": "inconclusive", "reason": "worker died before the case"}
        deadline = time.monotonic() + timeout
        fd = self.proc.stdout.fileno()
        while True:
            if b"\n" in self.buf:
                line, self.buf = self.buf.split(b"\n", 1)
                if line.startswith(b"@@RESULT "):
                    return json.loads(line[9:])
                continue
            remaining = deadline - time.monotonic()
            if remaining <= 0:
                self.kill()
                return {"status": "inconclusive", "reason": f"watchdog after {timeout}s"}
            ready, _, _ = select.select([fd], [], [], min(remaining, 1.0))
            if ready:
                chunk = os.read(fd, 1 << 16)
                if not chunk:
                    rc = self.proc.poll()
                    self.kill()
                    return {"status": "inconclusive", "reason": f"worker died (rc={rc})"}
                self.buf += chunk


def run_cases(check: str, cases: list[dict], timeout: float, nworkers: int):
    """Run all cases, return the list of results in case order."""
    scratch_root = os.environ.get("VERIF_SCRATCH", "/tmp")
    scratch = os.path.join(scratch_root, f"verif-{os.getpid()}")
    os.makedirs(scratch, exist_ok=True)
    results = [None] * len(cases)
    todo = queue.Queue()
    for i, case in enumerate(cases):
        todo.put((i, case))
    nworkers = max(1, min(nworkers, len(cases)))

    def loop(idx):
        worker = Worker(check, scratch, idx)
        try:
            while True:
                try:
                    i, case = todo.get_nowait()
                except queue.Empty:
                    return
                t0 = time.monotonic()
                res = worker.run(case, case.get("timeout", timeout))
                res["wall_s"] = round(time.monotonic() - t0, 3)
                results[i] = res
        finally:
            worker.kill()

    threads = [threading.Thread(target=loop, args=(i,), daemon=True) for i in range(nworkers)]
    try:
        for t in threads:
            t.start()
        for t in threads:
            t.join()
    finally:
        shutil.rmtree(scratch, ignore_errors=True)
    return results


def canonical(obj) -> str:
    return json.dumps(obj, sort_keys=True, default=str)


def main(argv=None):
    import argparse

    parser = argparse.ArgumentParser(prog="check")
    parser.add_argument("property")
    parser.add_argument("--tier", default=os.environ.get("VERIF_TIER", "quick"))
    parser.add_argument("--replay", default=None)
    parser.add_argument("--jobs", type=int, default=int(os.environ.get("VERIF_JOBS", "16")))
    parser.add_argument("--limit", type=int, default=None, help="debug: only the first N cases")
    args = parser.parse_args(argv)
    pid = args.property.upper()
    tier = args.tier
    seed = int(os.environ.get("VERIF_SEED", "0"))
    sys.path.insert(0, VERIF)
    mod = importlib.import_module(f"vmon.checks.{pid.lower()}")
    t0 = time.monotonic()
    timeout = getattr(mod, "TIMEOUT", 120)

    if not args.replay:
        # Replay files of earlier runs of this check are stale.
        import glob
        for old in glob.glob(os.path.join(VERIF, "replays", f"{pid}-*.json")):
            try:
                os.remove(old)
            except OSError:
                pass
    if args.replay:
        with open(args.replay) as fh:
            replay = json.load(fh)
        cases = [replay["case"]]
        tier = "replay"
    else:
        cases = mod.gen_cases(tier, seed)
        if args.limit:
            cases = cases[: args.limit]
    results = run_cases(pid.lower(), cases, timeout, args.jobs)

    known = [k for k in load_known_findings() if k["property"] == pid]
    open_mechs = {k["mechanism"]: k for k in known if k["status"] == "open"}

    counters: dict[str, int] = {}
    sets: dict[str, set] = {}
    nontrivial = set()
    samples = []
    inconclusive = []
    new_violations = []
    known_hits: dict[str, list] = {}
    for case, res in zip(cases, results):
        for name, val in (res.get("counters") or {}).items():
            counters[name] = counters.get(name, 0) + val
        for name, vals in (res.get("sets") or {}).items():
            sets.setdefault(name, set()).update(canonical(v) for v in vals)
        nt = res.get("nontrivial")
        if nt is not None:
            if isinstance(nt, list) and res.get("nontrivial_many"):
                nontrivial.update(canonical(v) for v in nt)
            else:
                nontrivial.add(canonical(nt))
        if res.get("sample") is not None and len(samples) < 8:
            samples.append(res["sample"])
        if res["status"] == "inconclusive":
            inconclusive.append({"case": case.get("id"), "reason": res.get("reason")})
        for vio in res.get("violations") or []:
            mech = vio.get("mechanism", "unclassified")
            if mech in open_mechs:
                known_hits.setdefault(mech, []).append((case, vio))
            else:
                new_violations.append((case, vio))

    nevals = counters.get("evaluations", len(cases))
    required = getattr(mod, "REQUIRED_COUNTERS", [])
    missing_reach = [name for name in required if counters.get(name, 0) == 0]
    agg = {
        "counters": counters,
        "sets": sets,
        "cases": cases,
        "results": results,
    }
    if hasattr(mod, "finish"):
        mod.finish(agg, tier, seed)

    # Replay files for new violations.
    replay_paths = []
    os.makedirs(os.path.join(VERIF, "replays"), exist_ok=True)
    for case, vio in new_violations[:20]:
        digest = hashlib.sha1(canonical([case, vio.get("mechanism")]).encode()).hexdigest()[:12]
        path = os.path.join(VERIF, "replays", f"{pid}-{digest}.json")
        with open(path, "w") as fh:
            json.dump(
                {"property": pid, "seed": seed, "tier": tier, "case": case, "violation": vio},
                fh,
                indent=1,
                default=str,
            )
        replay_paths.append(path)

    too_many_inconclusive = len(inconclusive) > max(2, len(cases) // 20)
    if new_violations:
        verdict = "violated"
    elif missing_reach or too_many_inconclusive or len(nontrivial) < 2:
        verdict = "inconclusive"
    else:
        verdict = "held"
    wall = time.monotonic() - t0
    if not samples:
        samples = [c.get("id", str(i)) for i, c in enumerate(cases[:5])]
    evidence = {
        "property_id": pid,
        "tier": tier if tier in ("quick", "thorough") else "quick",
        "seed": seed,
        "level": getattr(mod, "LEVEL", "exploration"),
        "coverage": {
            "evaluations": max(1, int(nevals)),
            "distinct_nontrivial": len(nontrivial),
            "rule": getattr(mod, "RULE", ""),
            "samples": samples,
            "cases": len(cases),
            "counters": dict(sorted(counters.items())),
            "distinct": {name: len(vals) for name, vals in sorted(sets.items())},
            "distinct_values": {name: sorted(map(str, vals))[:60] for name, vals in sorted(sets.items())},
            "inconclusive_cases": len(inconclusive),
            "inconclusive_samples": inconclusive[:5],
            "missing_reach": missing_reach,
        },
        "verdict": verdict,
        "violations": len(new_violations),
        "violation_details": [
            {"mechanism": v.get("mechanism"), "message": str(v.get("message"))[:500], "replay": p}
            for (c, v), p in zip(new_violations, replay_paths)
        ],
        "known_findings": [
            {"mechanism": mech, "hits": len(hits), "example": hits[0][1].get("message")}
            for mech, hits in sorted(known_hits.items())
        ],
        "assumptions": getattr(mod, "ASSUMPTIONS", []),
        "repo": repo_path(),
        "wall_s": round(wall, 2),
    }
    if hasattr(mod, "coverage_extra"):
        evidence["coverage"].update(mod.coverage_extra(agg))
    if tier != "replay":
        # runs against a scratch tree (self-validation with VERIF_REPO) are not evidence about /repo
        evdir = os.path.join(VERIF, "evidence") if os.environ.get("VERIF_REPO", "/repo") == "/repo" else \
            os.path.join(VERIF, "evidence", "scratch")
        os.makedirs(evdir, exist_ok=True)
        with open(os.path.join(evdir, f"{pid}.json"), "w") as fh:
            json.dump(evidence, fh, indent=1, default=str)
            fh.write("\n")

    print(
        f"{pid} tier={tier} seed={seed} cases={len(cases)} evaluations={nevals} "
        f"distinct_nontrivial={len(nontrivial)} inconclusive={len(inconclusive)} "
        f"wall={wall:.1f}s verdict={verdict}"
    )
    for name, val in sorted(counters.items()):
        print(f"  counter {name} = {val}")
    for name, vals in sorted(sets.items()):
        print(f"  distinct {name} = {len(vals)}")
    # one line per listed open finding of this property, whether or not this run reproduced it
    for mech, entry in sorted(open_mechs.items()):
        hits = known_hits.get(mech, [])
        print(f"KNOWN-FINDING: property={pid} {entry.get('title', mech)} ({len(hits)} hits in this run)")
    if new_violations:
        mech_counts = {}
        for _case, vio in new_violations:
            mech = vio.get("mechanism", "unclassified")
            mech_counts[mech] = mech_counts.get(mech, 0) + 1
        for mech, num in sorted(mech_counts.items()):
            print(f"  violation mechanism ({num}x): {mech}")
        for (case, vio), path in zip(new_violations, replay_paths):
            print(f"VIOLATION property={pid} replay={path}")
            print(f"  mechanism: {vio.get('mechanism')}")
            print(f"  {str(vio.get('message'))[:600]}")
        return 1
    if verdict == "inconclusive":
        print(
            f"INCONCLUSIVE property={pid} missing_reach={missing_reach} "
            f"inconclusive_cases={len(inconclusive)} distinct_nontrivial={len(nontrivial)}"
        )
        for item in inconclusive[:5]:
            print(f"  {item}")
        return 2
    return 0


if __name__ == "__main__":
    sys.exit(main())
