"""Installed through PYTHONPATH into every Python process started below an example run.

Only the director process (`python -m stepup.core.director ...`) is instrumented: the commit
monitor of /verif/vmon is attached to its DBSession, with the structural, transition and
dispatch checkers, and what they found is written to $VERIF_MONITOR_OUT/<pid>.json at exit.
Nothing happens when VERIF_MONITOR_OUT is not set.
"""
import os
import sys


def _install():
    out = os.environ.get("VERIF_MONITOR_OUT")
    if not out or "stepup.core.director" not in " ".join(getattr(sys, "orig_argv", sys.argv)):
        return
    try:
        import atexit
        import json

        from stepup.core.sqlite3 import DBSession
        from vmon import commitmon, invariants as I

        state = {"mon": None}
        orig_open = DBSession.open.__func__

        import contextlib

        @classmethod
        @contextlib.contextmanager
        def open_(cls, path, **kw):
            with orig_open(cls, path, **kw) as db:
                if state["mon"] is None and str(path).endswith("graph.db"):
                    mon = I.make_monitor()
                    mon.on_db(None, db)
                    state["mon"] = mon
                yield db

        DBSession.open = open_

        def dump():
            mon = state["mon"]
            rec = {"pid": os.getpid(), "argv": sys.argv[:3], "attached": mon is not None}
            if mon is not None:
                rec.update({"findings": [[m, msg[:1500]] for m, msg, _w in mon.findings],
                            "counters": mon.counters, "commits": mon.ncommit, "rollbacks": mon.nrollback,
                            "write_commits": mon.nwrite_commits})
            try:
                with open(os.path.join(out, f"{os.getpid()}.json"), "w") as fh:
                    json.dump(rec, fh)
            except OSError:
                pass

        atexit.register(dump)
    except Exception as exc:  # noqa: BLE001
        try:
            with open(os.path.join(out, f"{os.getpid()}.err"), "w") as fh:
                fh.write(repr(exc))
        except OSError:
            pass


_install()
