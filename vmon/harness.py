"""E1 (in-process director), E2 mode A (simulated steps), E3 (schedule control), recorder.

The real `serve()`, `DirectorHandler`, `Builder`, `Scheduler`, `Executor`, `Workflow`, RPC server
and hashing threads run unmodified inside this process.  Only `executor.launch_command`, the
process boundary, is replaced by a coroutine that interprets a small step program and talks to
the director through a real `SocketAsyncRPCClient` on the real Unix socket.

Step programs
-------------
`./plan.py` (with or without a workdir): the program is the JSON text after the shebang line of
`<workdir>/plan.py`.  `prog <file>`: the program is the JSON text of `<file>`.  `do <json>`:
inline program.  A program is a list of actions (dicts with key "a"), see `SimStep.run_action`.
All paths inside programs are relative to the project root.
"""

from __future__ import annotations

import asyncio
import hashlib
import json
import logging
import os
import random
import shutil
import stat
import tempfile
import time
import traceback

SHEBANG = "#!/usr/bin/env python3\n"

# A clock for file modification times: every write by the harness or by a simulated step gets
# an mtime strictly larger than every earlier one (removes timestamp granularity as a confounder).
_CLOCK = {"ns": 1_600_000_000_000_000_000}


def next_mtime_ns():
    _CLOCK["ns"] += 10_000_000  # 10 ms
    return _CLOCK["ns"]


def write_file(path, content, mode=None):
    """Write a file (text) with a strictly increasing mtime."""
    parent = os.path.dirname(path)
    if parent:
        os.makedirs(parent, exist_ok=True)
    with open(path, "w") as fh:
        fh.write(content)
    if mode is not None:
        os.chmod(path, mode)
    ns = next_mtime_ns()
    os.utime(path, ns=(ns, ns))


def write_plan(path, program):
    write_file(path, SHEBANG + json.dumps(program, sort_keys=True) + "\n", 0o755)


def write_prog(path, program):
    write_file(path, json.dumps(program, sort_keys=True) + "\n", 0o644)


def digest_of(path):
    try:
        with open(path, "rb") as fh:
            return hashlib.sha256(fh.read()).hexdigest()[:16]
    except OSError:
        return None


def make_recorder(build):
    """Reporter RPC client that records every call as an event."""
    from stepup.core.rpc import BaseAsyncRPCClient

    class Recorder(BaseAsyncRPCClient):
        async def __call__(self, name, /, *args, **kwargs):
            build.event("report", name=name, args=args)

    return Recorder()


class Controller:
    """E3: decides when a parked simulated step action is released."""

    def __init__(self, policy="free", seed=0):
        self.policy = policy
        self.rng = random.Random(seed)
        self.parked = []  # (future, info)
        self.trace = []
        self.task = None
        self.build = None
        self.hooks = []  # callables (info) -> coroutine or None, run when an action is released
        self.quiescent_hooks = []  # async callables run in a quiescent state, before a release
        self.stopped = False

    async def gate(self, info):
        if self.policy == "free":
            return
        if self.policy == "jitter":
            for _ in range(self.rng.choice([0, 0, 1, 2, 5])):
                await asyncio.sleep(0)
            return
        fut = asyncio.get_running_loop().create_future()
        self.parked.append((fut, info))
        await fut

    def quiescent(self):
        h = self.build.handler
        if h is None:
            return False
        db = h.db
        if db._held is not None or db._lock.locked():
            return False
        b = h.builder
        if b.done_tasks or b.wake_job_loop.is_set():
            return False
        # A queued hash job only counts as activity when it runs or can start:
        # with every job slot taken by parked steps it legitimately waits for one of them.
        slots_free = len(b.running_tasks) < b.njob
        for job in b.hash_queue.in_flight.values():
            if job.started or slots_free:
                return False
        if self.build.rpc_in_flight > 0 or self.build.db_waiting > 0:
            return False
        # every running simulated command waits at a gate: a command that got its reply and has
        # not been resumed yet is about to do something (finish, call again), not waiting
        if self.build.running_cmds != len(self.parked):
            return False
        for run in h.executor.running.values():
            worker = getattr(run, "worker", None)
            if worker is not None and type(worker).__name__ == "ThreadWorker":
                return False
        return True

    async def loop(self):
        stable = 0
        idle_rounds = 0
        while not self.stopped:
            await asyncio.sleep(0)
            if not self.quiescent():
                stable = 0
                continue
            stable += 1
            if stable < 3:
                continue
            if not self.parked:
                idle_rounds += 1
                if idle_rounds > 50:
                    # nothing to release: avoid a busy loop
                    await asyncio.sleep(0.001)
                continue
            idle_rounds = 0
            for hook in self.quiescent_hooks:
                await hook()
            if not self.parked:
                continue
            idx = self.rng.randrange(len(self.parked))
            fut, info = self.parked.pop(idx)
            self.trace.append((info.get("job"), info.get("i"), info.get("a")))
            for hook in self.hooks:
                res = hook(info)
                if asyncio.iscoroutine(res):
                    await res
            if not fut.done():
                fut.set_result(None)
            stable = 0

    def release_all(self):
        self.stopped = True
        for fut, _ in self.parked:
            if not fut.done():
                fut.set_result(None)
        self.parked.clear()


class StepAbort(Exception):
    def __init__(self, rc, msg=""):
        self.rc = rc
        self.msg = msg


class SimStep:
    """One execution of a simulated step."""

    def __init__(self, build, command, env, cwd):
        self.build = build
        self.command = command
        self.env = env
        self.cwd = str(cwd)
        self.job_i = int(env["STEPUP_JOB_I"])
        self.sock = env["STEPUP_DIRECTOR_SOCKET"]
        self.reads = []
        self.envreads = []
        self.holding = 0
        self.client = None
        self.label = command if self.cwd in (".", "") else f"{command}  # wd={self.cwd}"

    def load_program(self):
        cmd = self.command
        if cmd.startswith("./plan.py"):
            path = os.path.normpath(os.path.join(self.cwd, "plan.py"))
            with open(path) as fh:
                text = fh.read()
            self.note_read(path)
            return json.loads(text.split("\n", 1)[1])
        if cmd.startswith("prog "):
            path = cmd[5:].strip()
            with open(path) as fh:
                text = fh.read()
            self.note_read(path)
            return json.loads(text)
        if cmd.startswith("do "):
            return json.loads(cmd[3:])
        raise StepAbort(127, f"unknown command {cmd}")

    def note_read(self, path):
        d = digest_of(path)
        self.reads.append((path, d))
        self.build.event("read", job=self.job_i, step=self.label, path=path, digest=d)

    async def rpc(self, name, *args):
        from stepup.core.rpc import SocketAsyncRPCClient

        if self.client is None:
            self.client = SocketAsyncRPCClient(self.sock)
        self.build.rpc_in_flight += 1
        self.build.event("rpc", job=self.job_i, step=self.label, name=name, args=args)
        try:
            res = await self.client(name, self.job_i, *args)
            self.build.event("rpc_done", job=self.job_i, step=self.label, name=name, ok=True,
                             result=res)
            return res
        except BaseException as exc:
            self.build.event("rpc_done", job=self.job_i, step=self.label, name=name, ok=False,
                             error=type(exc).__name__, message=str(exc)[:2000])
            raise
        finally:
            self.build.rpc_in_flight -= 1

    async def run(self):
        from stepup.core.exceptions import UsageError
        from stepup.core.outcome import ChildOutcome, ResourceUsage

        b = self.build
        b.running_cmds += 1
        b.exec_count[self.label] = b.exec_count.get(self.label, 0) + 1
        b.event("cmd_start", job=self.job_i, step=self.label, running=b.running_cmds)
        rc, err = 0, ""
        try:
            program = self.load_program()
            for i, action in enumerate(program):
                await b.ctl.gate({"job": self.job_i, "i": i, "a": action.get("a"),
                                  "step": self.label, "action": action})
                await self.run_action(action)
        except StepAbort as exc:
            rc, err = exc.rc, exc.msg
        except UsageError as exc:
            rc, err = 1, f"{type(exc).__name__}: {exc}"
        except asyncio.CancelledError:
            raise
        except Exception as exc:  # noqa: BLE001
            rc, err = 1, f"{type(exc).__name__}: {exc}"
            b.event("step_exception", job=self.job_i, step=self.label, error=type(exc).__name__,
                    message=str(exc)[:3000], tb=traceback.format_exc()[-3000:])
        finally:
            # like api.hold(): a release is attempted for every open hold
            while self.holding > 0 and rc != 0:
                self.holding -= 1
                try:
                    await self.rpc("release_dispatch")
                except Exception:  # noqa: BLE001
                    break
            if self.client is not None:
                try:
                    await self.client.close()
                except Exception:  # noqa: BLE001
                    pass
            b.running_cmds -= 1
            b.event("cmd_end", job=self.job_i, step=self.label, rc=rc, err=err[:500])
        return ChildOutcome(rc, "", err, ResourceUsage())

    def out_content(self, path):
        h = hashlib.sha1()
        h.update(self.label.encode())
        for p, d in self.reads:
            h.update(f"|{p}={d}".encode())
        for n, v in self.envreads:
            h.update(f"|${n}={v}".encode())
        return f"{h.hexdigest()} {path}\n"

    async def run_action(self, action):
        from stepup.core.nglob import NamedGlob

        a = action["a"]
        b = self.build
        if a == "static":
            files = list(action.get("files", []))
            trees = list(action.get("trees", []))
            patterns = []
            for f in files:
                if not os.path.isfile(f):
                    raise StepAbort(1, f"PathError: static file does not exist: {f}")
            for t in trees:
                if not os.path.isdir(t):
                    raise StepAbort(1, f"PathError: static dir does not exist: {t}")
            for pat in action.get("patterns", []):
                ng = NamedGlob(pat)
                ng.glob()
                matches = [str(p) for p in ng.files()]
                for m in matches:
                    (trees if m.endswith("/") else files).append(m)
                patterns.append((pat, sorted(matches)))
            trees = sorted({t if t.endswith("/") else t + "/" for t in trees})
            await self.rpc("declare_static", trees, sorted(set(files)), patterns)
        elif a == "glob":
            ng = NamedGlob(action["pattern"], dict(action.get("subs", {})))
            ng.glob()
            paths = [str(p) for p in ng.files()]
            await self.rpc("register_glob", action["pattern"], dict(action.get("subs", {})), paths)
            tmpl = action.get("foreach")
            if tmpl:
                for m in paths:
                    if m.endswith("/"):
                        continue
                    base = os.path.splitext(os.path.basename(m))[0]
                    sub = json.loads(json.dumps(tmpl).replace("{m}", m).replace("{b}", base))
                    await self.define_step(sub)
        elif a == "step":
            await self.define_step(action)
        elif a == "plan":
            wd = action["wd"]
            await self.define_step({"cmd": "./plan.py", "inp": [os.path.join(wd, "plan.py")],
                                    "wd": wd, "need": "PLAN", **action.get("extra", {})})
        elif a == "hold":
            await self.rpc("hold_dispatch")
            self.holding += 1
        elif a == "release":
            await self.rpc("release_dispatch")
            self.holding -= 1
        elif a == "amend":
            await self.amend(action.get("inp", []), action.get("env", []), action.get("out", []),
                             action.get("vol", []))
        elif a == "read":
            path = action["path"]
            if not os.path.isfile(path):
                if action.get("optional"):
                    self.reads.append((path, None))
                    return
                raise StepAbort(1, f"FileNotFoundError: {path}")
            self.note_read(path)
        elif a == "write":
            path = action["path"]
            content = self.out_content(path) if "content" not in action else action["content"]
            write_file(path, content)
            b.event("write", job=self.job_i, step=self.label, path=path, digest=digest_of(path))
        elif a == "include":
            await self.include(action["path"], set())
        elif a == "fail":
            raise StepAbort(action.get("rc", 1), "requested failure")
        elif a == "fail_if":
            path = action["path"]
            if os.path.isfile(path):
                with open(path) as fh:
                    if action.get("marker", "FAIL") in fh.read():
                        raise StepAbort(1, f"marker found in {path}")
        elif a == "env":
            name = action["name"]
            self.envreads.append((name, self.env.get(name)))
        elif a == "getinfo":
            info = await self.rpc("get_step_info")
            b.event("info", job=self.job_i, step=self.label, inp=[str(p) for p in info.inp],
                    out=[str(p) for p in info.out])
        elif a == "raw":
            # A hand-made request through the real RPC interface; errors are recorded, not raised.
            from stepup.core.rpc import SocketAsyncRPCClient

            if self.client is None:
                self.client = SocketAsyncRPCClient(self.sock)
            job = action.get("job", self.job_i)
            b.rpc_in_flight += 1
            try:
                res = await self.client(action["name"], job, *action.get("args", []))
                b.event("raw_done", job=self.job_i, step=self.label, name=action["name"],
                        args=action.get("args", []), ok=True, result=repr(res)[:200])
            except Exception as exc:  # noqa: BLE001
                b.event("raw_done", job=self.job_i, step=self.label, name=action["name"],
                        args=action.get("args", []), ok=False, error=type(exc).__name__,
                        usage=isinstance(exc, __import__("stepup.core.exceptions", fromlist=["x"]).UsageError),
                        message=str(exc)[-3000:])
            finally:
                b.rpc_in_flight -= 1
        elif a == "drop" and b.exec_count.get(self.label, 0) > b.drop_cutoff:
            # A step that is run again and again because of its own late requests would never
            # end the build: from the fourth execution on the request is made the normal way.
            await self.run_action({**action, "a": "raw"})
        elif a == "drop":
            # A request sent in full on a connection of its own that is closed without reading
            # the reply (when: "sent" right after the write, "gate" one scheduling point later,
            # "partial" after the first byte of the reply).
            from stepup.core import rpc as _rpc

            job = action.get("job", self.job_i)
            args = [job, *action.get("args", [])]
            b.dropped.append({"job": job, "name": action["name"], "args": action.get("args", []),
                              "when": action.get("when", "sent"), "step": self.label})
            b.event("drop", job=self.job_i, step=self.label, name=action["name"],
                    args=action.get("args", []), when=action.get("when", "sent"))
            reader, writer = await asyncio.open_unix_connection(self.sock)
            try:
                body = _rpc._encode_body(_rpc.RPCCall(action["name"], tuple(args), {}))
                writer.write(_rpc._encode_message(1, body))
                await writer.drain()
                when = action.get("when", "sent")
                if when == "gate":
                    await b.ctl.gate({"job": self.job_i, "i": -1, "a": "dropwait", "step": self.label,
                                      "action": action})
                elif when == "partial":
                    try:
                        await asyncio.wait_for(reader.read(1), 5)
                    except asyncio.TimeoutError:
                        pass
            finally:
                writer.close()
            if action.get("die"):
                raise StepAbort(9, "died after sending a request")
        elif a == "sleep":
            await asyncio.sleep(float(action.get("s", 0.01)))
        elif a == "signal":
            b.signals.setdefault(action["key"], asyncio.Event()).set()
        elif a == "await":
            ev = b.signals.setdefault(action["key"], asyncio.Event())
            try:
                await asyncio.wait_for(ev.wait(), action.get("timeout", 10))
            except asyncio.TimeoutError:
                b.event("await_timeout", job=self.job_i, step=self.label, key=action["key"])
        elif a == "gate":
            pass
        else:
            raise StepAbort(2, f"unknown action {a}")

    async def define_step(self, spec):
        from stepup.core.enums import Need

        need = Need[spec.get("need", "DEFAULT")].value
        await self.rpc(
            "define_step", spec["cmd"], sorted(spec.get("inp", [])), sorted(spec.get("env", [])),
            sorted(spec.get("out", [])), sorted(spec.get("vol", [])), spec.get("wd", "."), need,
            dict(spec.get("res", {})), bool(spec.get("shell", False)),
            dict(spec["ovr"]) if spec.get("ovr") else None, spec.get("duration"),
        )

    async def amend(self, inp, env, out, vol):
        if self.holding > 0 and inp:
            raise StepAbort(1, "AmendWhileHoldingError")
        carry_on = await self.rpc("amend_step", sorted(set(inp)), sorted(set(env)),
                                  sorted(set(out)), sorted(set(vol)))
        self.build.event("amend", job=self.job_i, step=self.label, inp=sorted(set(inp)),
                         out=sorted(set(out)), carry_on=carry_on)
        if carry_on is False:
            raise StepAbort(1, "InputNotFoundError: dynamic inputs are not available yet")

    async def include(self, path, seen):
        if path in seen:
            return
        seen.add(path)
        if not os.path.isfile(path):
            raise StepAbort(1, f"FileNotFoundError: {path}")
        self.note_read(path)
        with open(path) as fh:
            lines = fh.read().splitlines()
        for line in lines:
            if line.startswith("include "):
                target = line[8:].strip()
                await self.amend([target], [], [], [])
                await self.include(target, seen)


class Build:
    """One `serve()` call on the project in the current working directory."""

    def __init__(self, ctl=None, monitors=()):
        self.events = []
        self.t = 0
        self.handler = None
        self.ctl = ctl or Controller("free")
        self.ctl.build = self
        self.rpc_in_flight = 0
        self.dropped = []
        self.exec_count = {}
        self.drop_cutoff = 3
        self.signals = {}
        self.running_cmds = 0
        self.monitors = list(monitors)
        self.returncode = None
        self.error = None
        self.log_records = []
        self.commits = 0
        self.thread_delay = None
        self.thread_delays = 0
        self.db_delay = None
        self.db_delays = 0
        self.db_waiting = 0   # tasks inside an injected delay before a transaction

    def event(self, type_, **kw):
        self.t += 1
        ev = {"t": self.t, "type": type_, "mono": time.monotonic_ns(), **kw}
        self.events.append(ev)
        for mon in self.monitors:
            cb = getattr(mon, "on_event", None)
            if cb is not None:
                cb(self, ev)
        return ev

    def reports(self, name=None):
        return [e for e in self.events if e["type"] == "report" and (name is None or e["name"] == name)]

    def tagged(self, tag):
        """Reporter messages `report(tag, description, pages)`."""
        out = []
        for e in self.events:
            if e["type"] == "report" and e["name"] == "report" and e["args"] and e["args"][0] == tag:
                out.append(e["args"][1] if len(e["args"]) > 1 else "")
        return out

    def started(self):
        return [str(x) for x in self.tagged("START")]


class _LogCapture(logging.Handler):
    def __init__(self, build):
        super().__init__(logging.WARNING)
        self.build = build

    def emit(self, record):
        try:
            msg = record.getMessage()
        except Exception:  # noqa: BLE001
            msg = str(record.msg)
        self.build.log_records.append((record.levelname, record.name, msg[:2000]))


_PATCHED = {"done": False}
_CURRENT = {"build": None}


def install_patches():
    """Patch the process boundary and the director wiring once per process."""
    if _PATCHED["done"]:
        return
    import stepup.core.director as director
    import stepup.core.executor as executor

    orig_wire = director._wire_director

    async def wire(**kw):
        handler = await orig_wire(**kw)
        build = _CURRENT["build"]
        if build is not None:
            build.handler = handler
            for mon in build.monitors:
                cb = getattr(mon, "on_wired", None)
                if cb is not None:
                    cb(build, handler)
        return handler

    director._wire_director = wire

    async def sim_launch(command, *, shell, env, cwd, mp_ctx, run):
        build = _CURRENT["build"]
        step = SimStep(build, command, env, cwd)
        return await step.run()

    executor.launch_command = sim_launch

    import stepup.core.builder as builder_mod

    orig_job_loop = builder_mod.Builder.job_loop

    async def job_loop(self):
        build = _CURRENT["build"]
        if build is not None:
            build.event("phase_start")
            build.in_phase = True
            build.job_loop_task = asyncio.current_task()
        try:
            await orig_job_loop(self)
        finally:
            if build is not None:
                build.in_phase = False
        if build is not None:
            build.event("phase_end", draining=self.scheduler.draining)
            for mon in build.monitors:
                cb = getattr(mon, "on_phase_end", None)
                if cb is not None:
                    await cb(build, build.handler)

    builder_mod.Builder.job_loop = job_loop

    # Injected delay at an existing suspension point of the director: the hand-off of hash
    # computations to a thread (before a command, after it, and for file hash jobs).
    # `cfg["thread_delay"] = {"p": probability, "max": seconds, "seed": n[, "min": seconds]}` makes that thread
    # slow to start, as it is for a large file or a busy machine, which widens the windows
    # between a dispatch and `reset_for_rerun`, and between the end of a command and the
    # transaction that records it.
    import stepup.core.run as run_mod

    orig_run_in_thread = run_mod.ThreadWorker.run_in_thread

    async def run_in_thread(self):
        build = _CURRENT["build"]
        if build is not None and build.thread_delay is not None:
            rng, p, dmax, dmin = build.thread_delay
            if rng.random() < p:
                build.thread_delays += 1
                await asyncio.sleep(dmin + rng.random() * (dmax - dmin))
        return await orig_run_in_thread(self)

    run_mod.ThreadWorker.run_in_thread = run_in_thread

    # Injected delay at another existing suspension point: the acquisition of the database lock
    # (`async with db`).  Any task may have to wait there whenever another one holds the lock, so a
    # delay before the acquisition only produces orders of transactions that contention produces
    # as well.  `cfg["db_delay"] = {"p": probability, "max": seconds, "seed": n}`.
    from stepup.core.sqlite3 import DBSession

    orig_db_enter = DBSession.__aenter__

    async def db_enter(self):
        build = _CURRENT["build"]
        if build is not None and build.db_delay is not None:
            rng, p, dmax = build.db_delay
            if rng.random() < p:
                build.db_delays += 1
                build.db_waiting += 1
                try:
                    await asyncio.sleep(rng.random() * dmax)
                finally:
                    build.db_waiting -= 1
        return await orig_db_enter(self)

    DBSession.__aenter__ = db_enter
    _PATCHED["done"] = True


def config_from(cfg):
    from path import Path
    from stepup.core.director import ServeConfig

    return ServeConfig(
        njob=cfg.get("njob", 1),
        do_clean=cfg.get("clean", True),
        use_duration=cfg.get("use_duration", False),
        explain_rerun=cfg.get("explain", False),
        keep_going=cfg.get("keep_going", False),
        do_watch=cfg.get("watch", False),
        available_resources=cfg.get("resources"),
        defer_cap=cfg.get("defer_cap", 100),
        targets=[Path(t) for t in cfg.get("targets", [])],
        target_dirs=[Path(t) for t in cfg.get("target_dirs", [])],
    )


def run_build(cfg=None, ctl=None, monitors=(), driver=None, env=None, timeout=60):
    """Run one director (one or more build phases in watch mode) in the current directory.

    Returns the `Build` with events, return code, or `error` when `serve()` raised.
    """
    from path import Path
    from stepup.core.reporter import ReporterClient
    from stepup.core.sqlite3 import DBSession

    install_patches()
    cfg = cfg or {}
    build = Build(ctl, monitors)
    build.drop_cutoff = cfg.get("drop_cutoff", 3)
    dd = cfg.get("db_delay")
    if dd:
        build.db_delay = (random.Random(dd.get("seed", 0)), dd.get("p", 0.2), dd.get("max", 0.003))
    td = cfg.get("thread_delay")
    if td:
        build.thread_delay = (random.Random(td.get("seed", 0)), td.get("p", 0.5), td.get("max", 0.02),
                              td.get("min", 0.0))
    _CURRENT["build"] = build
    os.makedirs(".stepup", exist_ok=True)
    sockdir = tempfile.mkdtemp(prefix="vs", dir=os.environ.get("VERIF_SCRATCH", "/tmp"))
    saved_env = {}
    for name, value in (env or {}).items():
        saved_env[name] = os.environ.get(name)
        if value is None:
            os.environ.pop(name, None)
        else:
            os.environ[name] = value
    capture = _LogCapture(build)
    root_logger = logging.getLogger()
    root_logger.addHandler(capture)

    async def main():
        from stepup.core.director import serve

        with DBSession.open(".stepup/graph.db") as db:
            for mon in build.monitors:
                cb = getattr(mon, "on_db", None)
                if cb is not None:
                    cb(build, db)
            ctl_task = None
            if build.ctl.policy == "serial":
                ctl_task = asyncio.create_task(build.ctl.loop())
            drv_task = None
            reporter = ReporterClient(make_recorder(build))
            serve_task = asyncio.create_task(serve(
                config_from(cfg), director_socket_path=Path(os.path.join(sockdir, "d")),
                reporter=reporter, db=db, handle_signals=False))
            if driver is not None:
                drv_task = asyncio.create_task(driver(build))
            try:
                done, pending = await asyncio.wait([serve_task], timeout=timeout)
                if pending:
                    dump = []
                    for t in asyncio.all_tasks():
                        frames = t.get_stack(limit=4)
                        where = " < ".join(f"{os.path.basename(f.f_code.co_filename)}:{f.f_lineno}"
                                           for f in reversed(frames))
                        dump.append(f"{t.get_name()} @ {where}")
                    build.watchdog_tasks = sorted(dump)
                    build.error = ("watchdog", f"serve() did not return within {timeout}s")
                    build.ctl.release_all()
                    if build.handler is not None:
                        build.handler._stop_scheduling()
                        build.handler.executor.interrupt(9)
                    serve_task.cancel()
                    try:
                        await asyncio.wait_for(serve_task, 10)
                    except BaseException:  # noqa: BLE001
                        pass
                else:
                    try:
                        result = serve_task.result()
                        build.returncode = result.returncode
                    except BaseException as exc:  # noqa: BLE001
                        build.error = (type(exc).__name__, "".join(
                            traceback.format_exception(exc))[-4000:])
            finally:
                build.ctl.release_all()
                # like the command-line tool (`async with ReporterClient.socket(...)`): the
                # reporter client is closed by whoever made it, which flushes its last batch
                try:
                    await asyncio.wait_for(reporter.close(), 5)
                except BaseException:  # noqa: BLE001
                    pass
                for t in (ctl_task, drv_task):
                    if t is not None:
                        t.cancel()
                        try:
                            await t
                        except BaseException:  # noqa: BLE001
                            pass
                for mon in build.monitors:
                    cb = getattr(mon, "on_end", None)
                    if cb is not None:
                        res = cb(build, db)
                        if asyncio.iscoroutine(res):
                            await res

    try:
        asyncio.run(main())
    finally:
        root_logger.removeHandler(capture)
        _CURRENT["build"] = None
        shutil.rmtree(sockdir, ignore_errors=True)
        for name, value in saved_env.items():
            if value is None:
                os.environ.pop(name, None)
            else:
                os.environ[name] = value
    return build


def graph_text(db_path=".stepup/graph.db", attached_only=False):
    """Canonical text of the workflow graph (see DESIGN Appendix A), read with the real code."""
    from stepup.core.sqlite3 import DBSession
    from stepup.core.workflow import Workflow

    async def main():
        with DBSession.open(db_path) as db:
            wf = Workflow(db, dir_queue=None)
            # Do not run initialize(): it would apply the schema and consistency fixes.
            wf._root = None
            async with db:
                text = wf.format_str()
                rows = db.execute(
                    "SELECT node.label, nglob.pattern, nglob.data FROM nglob JOIN node ON "
                    "node.i = nglob.node WHERE NOT node.detached ORDER BY 1, 2").fetchall()
            return text, rows

    text, rows = asyncio.run(main())
    return canonical_graph(text, attached_only), [list(r) for r in rows]


def canonical_graph(text, attached_only=False):
    """Sort the node blocks of `Workflow.format_str()`.

    attached_only: drop the blocks of detached nodes (key in parentheses) and the relation lines
    that point to detached nodes (memories of former lives are allowed to differ), and drop the
    stored digests of PENDING steps (a pending step is not "considered done"; whether it remembers
    an old hash only affects whether it is hash-checked before it runs).
    """
    out = []
    for block in text.split("\n\n"):
        lines = [l for l in block.split("\n") if l.strip()]
        if not lines:
            continue
        head = lines[0]
        if attached_only and head.startswith("("):
            continue
        if attached_only:
            pending = any(l.strip() == "state = PENDING" for l in lines[1:3])
            kept = []
            for l in lines:
                parts = l.split(None, 1)
                if len(parts) == 2 and parts[0] in ("sink", "source", "product") and parts[1].startswith("("):
                    continue
                if pending and parts and parts[0] in ("inp_digest", "out_digest", "explained"):
                    continue
                kept.append(l)
            lines = kept
        out.append("\n".join(lines))
    return "\n\n".join(sorted(out))


def parse_graph(text):
    """Parse a canonical graph text into {head: {"props": [(k, v)], "rels": [(role, key, dynamic)]}}."""
    graph = {}
    for block in text.split("\n\n"):
        lines = [l for l in block.split("\n") if l.strip()]
        if not lines:
            continue
        head = lines[0]
        props, rels = [], []
        last_key = None
        for l in lines[1:]:
            if " = " in l[:24] or l[:23].rstrip().endswith("="):
                k, _, v = l.partition(" = ")
                last_key = k.strip() or last_key
                props.append((last_key, v))
            else:
                parts = l.split(None, 1)
                role, key = parts[0], parts[1] if len(parts) > 1 else ""
                dynamic = key.endswith(" [dynamic]")
                if dynamic:
                    key = key[: -len(" [dynamic]")]
                rels.append((role, key, dynamic))
        graph[head] = {"props": props, "rels": rels}
    return graph


def drop_pending_memory(graph):
    """Remove what a PENDING step remembers from an earlier run: its dynamic inputs, the outputs
    it amended, and the nodes it created while running (defined steps, static declarations, and
    recursively what those created).  Returns (graph, removed heads)."""
    import copy as _copy

    g = _copy.deepcopy(graph)
    removed = set()

    def remove_node(head):
        if head not in g or head in removed:
            return
        node = g.pop(head)
        removed.add(head)
        for role, key, _dyn in node["rels"]:
            if role == "product":
                remove_node(key)
        for n2 in g.values():
            n2["rels"] = [r for r in n2["rels"] if r[1] != head]

    for head in list(g):
        node = g.get(head)
        if node is None or not head.startswith("step:") or ("state", "PENDING") not in node["props"]:
            continue
        declared_outs = {r[1] for r in node["rels"] if r[0] == "sink" and not r[2]}
        for role, key, dynamic in list(node["rels"]):
            if role == "product" and key not in declared_outs:
                # a step or static declaration made while running, or an amended output
                remove_node(key)
        node = g.get(head)
        for role, key, dynamic in list(node["rels"]):
            if dynamic and role == "source":
                node["rels"].remove((role, key, dynamic))
                other = g.get(key)
                if other is not None:
                    other["rels"] = [r for r in other["rels"] if not (r[0] == "sink" and r[1] == head)]
    return g, removed
