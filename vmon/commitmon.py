"""E4: commit monitor.

`DBSession.__aenter__/__aexit__/execute/executemany` are wrapped once per process.
Right before the real commit, on the same connection and therefore under the code's own lock and
inside the committing transaction, the monitor dumps the persistent tables and the relevant temp
tables, and hands (previous snapshot, new snapshot, transaction record) to the registered checkers.
"""

from __future__ import annotations

import asyncio
import threading

_MONITORS = {}
_PATCHED = {"done": False}

STEP_COLS = ["node", "state", "need", "duration", "deferred", "defer_count", "shell",
             "env_overrides", "_safe", "_check_safe", "_holding", "_safe_ignoring_hold",
             "_implied_need", "_tail_time", "_check_after", "_has_hash", "_ready", "_check_ready"]


def snapshot(con):
    snap = {}
    snap["node"] = {r[0]: (r[1], r[2], r[3], bool(r[4])) for r in con.execute(
        "SELECT i, kind, label, creator, detached FROM node")}
    snap["dep"] = {r[0]: (r[1], r[2]) for r in con.execute("SELECT i, source, sink FROM dependency")}
    snap["file"] = {r[0]: (r[1], r[2]) for r in con.execute("SELECT node, state, hash FROM file")}
    snap["step"] = {r[0]: dict(zip(STEP_COLS, r)) for r in con.execute(
        "SELECT " + ", ".join(STEP_COLS) + " FROM step")}
    snap["step_hash"] = {r[0]: r[1] for r in con.execute("SELECT node, hash FROM step_hash")}
    snap["dynamic_dep"] = {r[0] for r in con.execute("SELECT i FROM dynamic_dep")}
    snap["env_var"] = {(r[0], r[1]): (r[2], r[3]) for r in con.execute(
        "SELECT node, name, value, dynamic FROM env_var")}
    snap["nglob"] = {r[0]: (r[1], r[2], r[3], r[4]) for r in con.execute(
        "SELECT i, node, pattern, regex, data FROM nglob")}
    snap["step_resource"] = {(r[0], r[1]): r[2] for r in con.execute(
        "SELECT node, name, units FROM step_resource")}
    for name, sql, conv in (
        ("available_resource", "SELECT name, units FROM available_resource",
         lambda rows: {r[0]: r[1] for r in rows}),
        ("target_path", "SELECT path FROM target_path", lambda rows: {r[0] for r in rows}),
        ("target_dir", "SELECT path, upper FROM target_dir", lambda rows: {r[0]: r[1] for r in rows}),
        ("step_need_count", "SELECT implied_need, succeeded, n FROM step_need_count",
         lambda rows: {(r[0], r[1]): r[2] for r in rows}),
    ):
        try:
            snap[name] = conv(con.execute(sql).fetchall())
        except Exception:  # noqa: BLE001
            snap[name] = None
    return snap


PERSISTENT = ("node", "dep", "file", "step", "step_hash", "dynamic_dep", "env_var", "nglob",
              "step_resource")


def persistent_dump(snap):
    """The persistent part of a snapshot in a comparable form (for atomicity checks)."""
    return {k: snap[k] for k in ("node", "dep", "file", "step", "step_hash", "dynamic_dep",
                                 "env_var", "nglob", "step_resource")}


DOUBLE_RUN_MECH = "two commands of the same step run at the same time"


class Transaction:
    __slots__ = ("index", "task", "task_name", "nstmt", "changes_before", "writes", "is_pop",
                 "rolled_back", "off_thread", "foreign_stmt", "request", "changed")

    def __init__(self, index, task):
        self.index = index
        self.task = task
        self.task_name = task.get_name() if task is not None else "?"
        self.nstmt = 0
        self.changes_before = 0
        self.writes = 0
        self.is_pop = False
        self.rolled_back = None
        self.off_thread = 0
        self.foreign_stmt = 0
        self.request = None
        self.changed = None   # whether the persistent tables differ from the previous commit


class CommitMonitor:
    """Attach to one DBSession; keeps the previous snapshot and calls checkers."""

    def __init__(self, checkers=(), snapshot_reads=False):
        self.checkers = list(checkers)
        self.prev = None
        self.tx = None
        self.ntx = 0
        self.ncommit = 0
        self.nrollback = 0
        self.nwrite_commits = 0
        self.pop_tasks = set()
        self.loop_thread = None
        self.findings = []   # (mechanism, message, witness)
        self.counters = {}
        self.build = None
        self.db = None
        self.fail_at = None  # (statement index) inject failure: callable(tx, query) -> exception or None
        self.history = []    # transaction records (light)
        self.tx_log = []     # Transaction objects, in order (only when keep_tx is set)
        self.keep_tx = False
        self.check_rollback = False
        self.snapshot_reads = snapshot_reads
        self.snapshot_decisions = True
        self.running_cmds = {}
        self.decision = None  # (snapshot at the moment of the choice, (step, new state) or None)

    # -- harness monitor protocol -------------------------------------------------------------
    def on_db(self, build, db):
        install()
        self.build = build
        self.db = db
        self.loop_thread = threading.get_ident()
        _MONITORS[id(db)] = self

    def on_end(self, build, db):
        _MONITORS.pop(id(db), None)

    async def on_phase_end(self, build, handler):
        for cb in getattr(self, "phase_end_checkers", ()):
            await cb(self, build, handler)

    def on_event(self, build, ev):
        """One command per step at a time: a step whose command is still running was handed out
        again (it was made PENDING while it ran)."""
        if ev["type"] == "cmd_start":
            self.count("command_starts_seen")
            running = self.running_cmds.setdefault(ev["step"], set())
            if running:
                self.finding(DOUBLE_RUN_MECH, f"{ev['step'][:160]!r}: job {ev.get('job')} starts while "
                             f"job(s) {sorted(running)} of the same step still run")
            running.add(ev.get("job"))
        elif ev["type"] == "cmd_end":
            self.running_cmds.get(ev["step"], set()).discard(ev.get("job"))

    def count(self, name, n=1):
        self.counters[name] = self.counters.get(name, 0) + n

    def finding(self, mechanism, message, witness=None):
        if sum(1 for f in self.findings if f[0] == mechanism) < 3:
            self.findings.append((mechanism, message, witness or {}))

    # -- hooks ----------------------------------------------------------------------------------
    def begin(self, db):
        self.ntx += 1
        task = asyncio.current_task()
        self.tx = Transaction(self.ntx, task)
        self.tx.is_pop = task in self.pop_tasks
        try:
            self.tx.changes_before = db._held.con.total_changes
        except Exception:  # noqa: BLE001
            pass

    def statement(self, db, query):
        tx = self.tx
        if tx is None:
            return
        tx.nstmt += 1
        if threading.get_ident() != self.loop_thread:
            tx.off_thread += 1
        if asyncio.current_task() is not tx.task:
            tx.foreign_stmt += 1
        if self.fail_at is not None:
            exc = self.fail_at(tx, query)
            if exc is not None:
                raise exc

    def end(self, db, exc):
        tx = self.tx
        if tx is None:
            return
        con = db._held.con if db._held is not None else None
        if exc is not None:
            tx.rolled_back = type(exc).__name__
            self.nrollback += 1
        else:
            self.ncommit += 1
            if con is not None:
                tx.writes = con.total_changes - tx.changes_before
        if tx.off_thread:
            self.finding("statement executed off the event-loop thread",
                         f"{tx.off_thread} statement(s) in transaction {tx.index} ({tx.task_name})")
        if tx.foreign_stmt:
            self.finding("statement of another task inside a transaction",
                         f"{tx.foreign_stmt} statement(s) in transaction {tx.index} ({tx.task_name})")
        snap = None
        if con is not None and exc is None and (tx.writes > 0 or self.prev is None or tx.is_pop
                                                or self.snapshot_reads):
            snap = snapshot(con)
            self.nwrite_commits += 1
            if self.prev is not None:
                tx.changed = any(self.prev[k] != snap[k] for k in PERSISTENT)
        for checker in self.checkers:
            try:
                checker(self, self.prev, snap, tx)
            except Exception as err:  # noqa: BLE001
                import traceback
                self.finding("harness: checker raised", traceback.format_exc()[-2000:])
                del err
        if snap is not None:
            self.prev = snap
        self.history.append((tx.index, tx.task_name, tx.nstmt, tx.writes, tx.is_pop, tx.rolled_back))
        if self.keep_tx:
            self.tx_log.append(tx)
        self.last_tx = tx
        self.tx = None

    def after_exit(self, db, exc):
        """Called right after the real `__aexit__` returned (no await in between, so no other task
        ran): after a rollback, the tables must be exactly what the last commit left."""
        if exc is None or not self.check_rollback or self.prev is None or db._con is None:
            return
        after = snapshot(db._con)
        self.count("rollbacks_compared")
        diff = [k for k in self.prev if self.prev[k] != after[k]]
        if diff:
            tx = getattr(self, "last_tx", None)
            self.finding("rolled-back transaction left changes in the tables",
                         f"tables {diff} differ after the rollback of transaction "
                         f"{tx.index if tx else '?'} ({tx.task_name if tx else '?'}: {type(exc).__name__}: {exc})"[:600])


def install():
    if _PATCHED["done"]:
        return
    from stepup.core.scheduler import Scheduler
    from stepup.core.sqlite3 import DBSession

    orig_enter = DBSession.__aenter__
    orig_exit = DBSession.__aexit__
    orig_run = DBSession._run
    orig_pop = Scheduler.pop_next_job
    orig_next = Scheduler._get_next_step

    def get_next(self):
        # The decision itself: inside the transaction of pop_next_job, after the cached columns
        # were brought up to date and before anything is changed because of the choice.
        result = orig_next(self)
        mon = _MONITORS.get(id(self.db))
        if mon is not None and self.db._held is not None and mon.snapshot_decisions:
            chosen = None if result is None else (result[0].i, result[1].value)
            mon.decision = (snapshot(self.db._held.con), chosen)
        return result

    Scheduler._get_next_step = get_next

    async def aenter(self):
        res = await orig_enter(self)
        mon = _MONITORS.get(id(self))
        if mon is not None:
            mon.begin(self)
        return res

    async def aexit(self, exc_type, exc, tb):
        mon = _MONITORS.get(id(self))
        if mon is not None:
            try:
                mon.end(self, exc)
            except BaseException:  # noqa: BLE001
                import traceback
                mon.finding("harness: monitor raised", traceback.format_exc()[-2000:])
        try:
            return await orig_exit(self, exc_type, exc, tb)
        finally:
            if mon is not None:
                try:
                    mon.after_exit(self, exc)
                except BaseException:  # noqa: BLE001
                    import traceback
                    mon.finding("harness: monitor raised", traceback.format_exc()[-2000:])

    def run(self, query, args, *, many):
        mon = _MONITORS.get(id(self))
        if mon is not None:
            mon.statement(self, query)
        return orig_run(self, query, args, many=many)

    async def pop(self):
        mon = _MONITORS.get(id(self.db))
        task = asyncio.current_task()
        if mon is not None:
            mon.pop_tasks.add(task)
            mon.decision = None
        try:
            return await orig_pop(self)
        finally:
            if mon is not None:
                mon.pop_tasks.discard(task)

    DBSession.__aenter__ = aenter
    DBSession.__aexit__ = aexit
    DBSession._run = run
    Scheduler.pop_next_job = pop
    _PATCHED["done"] = True
