"""Child process for C05: runs one director (mode A) in the current directory and kills itself
(SIGKILL, so nothing is flushed, closed or cleaned up) at the requested point.

usage: python -m vmon.crashchild '<json>'
  {"cfg": {...}, "policy": "free", "seed": 1, "env": {...},
   "crash": null | {"commit": n} | {"gate": n} | {"after_write": n}}
Appends one JSON line per event of interest to `.crash-events.jsonl` (unbuffered), so the parent
knows which commands were running when the process died.
"""

from __future__ import annotations

import json
import os
import signal
import sys


def main():
    spec = json.loads(sys.argv[1])
    from vmon import commitmon, harness as H

    crash = spec.get("crash") or {}
    log = open(".crash-events.jsonl", "ab", buffering=0)

    def emit(rec):
        log.write((json.dumps(rec) + "\n").encode())

    def die(why):
        emit({"type": "killed", "why": why})
        os.kill(os.getpid(), signal.SIGKILL)

    class Mon(commitmon.CommitMonitor):
        def __init__(self):
            super().__init__(checkers=[])
            self.gates = 0
            self.writes = 0

        def after_exit(self, db, exc):
            if exc is None:
                emit({"type": "commit", "n": self.ncommit, "task": self.last_tx.task_name if getattr(self, "last_tx", None) else None})
                if crash.get("commit") == self.ncommit:
                    die(f"after commit {self.ncommit}")

        def on_event(self, build, ev):
            if ev["type"] in ("cmd_start", "cmd_end"):
                emit({"type": ev["type"], "job": ev["job"], "step": ev["step"], "rc": ev.get("rc")})
            elif ev["type"] == "write":
                self.writes += 1
                emit({"type": "write", "job": ev["job"], "step": ev["step"], "path": ev["path"], "n": self.writes})
                if crash.get("after_write") == self.writes:
                    die(f"after write {self.writes}")
            elif ev["type"] == "report" and ev["name"] == "report" and ev["args"][0] in ("PHASE", "REMOVE"):
                emit({"type": "report", "tag": ev["args"][0], "msg": str(ev["args"][1])})

    mon = Mon()

    class Ctl(H.Controller):
        async def gate(self, info):
            mon.gates += 1
            if crash.get("gate") == mon.gates:
                die(f"at gate {mon.gates}")
            await super().gate(info)

    ctl = Ctl(spec.get("policy", "free"), spec.get("seed", 0))
    b = H.run_build(spec.get("cfg") or {}, ctl=ctl, monitors=[mon], env=spec.get("env") or {}, timeout=120)
    emit({"type": "done", "rc": None if b.returncode is None else b.returncode.value,
          "error": b.error and [b.error[0], str(b.error[1])[-1500:]], "commits": mon.ncommit,
          "gates": mon.gates, "writes": mon.writes})


if __name__ == "__main__":
    main()
