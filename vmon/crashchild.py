"""Child process for C05: runs one director (mode A) in the current directory and kills itself
(SIGKILL, so nothing is flushed, closed or cleaned up) at the requested point.

usage: python -m vmon.crashchild '<json>'
  {"cfg": {...}, "policy": "free", "seed": 1, "env": {...},
   "crash": null | {"commit": n} | {"gate": n} | {"after_write": n} | {"shutdown_gate": n}
            | {"commit_after_events": n} | {"gate_after_events": n}   (watch sessions: counted from the
              moment the file-system events have been applied),
   "watch": null | {"seed": n, "nev": k, "user_files": [...]}}
With "watch", the director runs in watch mode: after the first build phase the child applies `nev`
file-system events (those of C14, drawn from `seed`), waits until the watcher has seen them, starts
the rebuild, waits for it and shuts the director down.  Commits are counted over the whole session,
so a crash point can fall into the watch phase, the rebuild or the shutdown.
Appends one JSON line per event of interest to `.crash-events.jsonl` (unbuffered), so the parent
knows which commands were running when the process died.
"""

from __future__ import annotations

import json
import os
import signal
import sys


def main():
    spec = json.loads(sys.argv[1])
    from vmon import commitmon, harness as H

    crash = spec.get("crash") or {}
    log = open(".crash-events.jsonl", "ab", buffering=0)

    def emit(rec):
        log.write((json.dumps(rec) + "\n").encode())

    def die(why):
        emit({"type": "killed", "why": why})
        os.kill(os.getpid(), signal.SIGKILL)

    class Mon(commitmon.CommitMonitor):
        def __init__(self):
            super().__init__(checkers=[])
            self.gates = 0
            self.writes = 0
            self.base_commits = None
            self.base_gates = None

        def after_exit(self, db, exc):
            if exc is None:
                emit({"type": "commit", "n": self.ncommit, "task": self.last_tx.task_name if getattr(self, "last_tx", None) else None})
                if crash.get("commit") == self.ncommit:
                    die(f"after commit {self.ncommit}")
                if self.base_commits is not None and \
                        crash.get("commit_after_events") == self.ncommit - self.base_commits:
                    die(f"after commit {self.ncommit - self.base_commits} that follows the file-system events")

        def on_event(self, build, ev):
            if ev["type"] in ("cmd_start", "cmd_end"):
                emit({"type": ev["type"], "job": ev["job"], "step": ev["step"], "rc": ev.get("rc")})
            elif ev["type"] == "write":
                self.writes += 1
                emit({"type": "write", "job": ev["job"], "step": ev["step"], "path": ev["path"], "n": self.writes})
                if crash.get("after_write") == self.writes:
                    die(f"after write {self.writes}")
            elif ev["type"] == "report" and ev["name"] == "report" and ev["args"][0] in ("PHASE", "REMOVE"):
                emit({"type": "report", "tag": ev["args"][0], "msg": str(ev["args"][1])})

    mon = Mon()

    class Ctl(H.Controller):
        async def gate(self, info):
            mon.gates += 1
            if crash.get("gate") == mon.gates:
                die(f"at gate {mon.gates}")
            if crash.get("shutdown_gate") == mon.gates and self.build.handler is not None:
                # not a kill: the user asks the director to stop (the `q` key, `stepup shutdown`);
                # running steps finish, nothing new is dispatched, the director exits
                emit({"type": "shutdown_requested", "gate": mon.gates})
                import asyncio
                self.shutdown_task = asyncio.create_task(self.build.handler.shutdown())
            if mon.base_gates is not None and crash.get("gate_after_events") == mon.gates - mon.base_gates:
                die(f"at gate {mon.gates - mon.base_gates} that follows the file-system events")
            await super().gate(info)

    ctl = Ctl(spec.get("policy", "free"), spec.get("seed", 0))
    driver = None
    if spec.get("watch"):
        import asyncio
        import random

        from vmon.checks import c14

        c14.install_watch_hook()
        w = spec["watch"]

        async def driver(build):
            build.watch_seen = []
            while build.handler is None:
                await asyncio.sleep(0.001)
            handler = build.handler
            try:
                await handler.wait_for_idle()
                for _ in range(5000):
                    if handler.watcher.busy_watching.is_set():
                        break
                    await asyncio.sleep(0.002)
                emit({"type": "watch_start", "commits": mon.ncommit, "gates": mon.gates, "writes": mon.writes})
                rng = random.Random(w["seed"])
                user_files = dict.fromkeys(w["user_files"], True)
                memory = {}
                for _ in range(w["nev"]):
                    kind = rng.choice(c14.EVENT_KINDS)
                    desc = c14.apply_event(rng, kind, user_files, memory)
                    emit({"type": "fs_event", "kind": kind, "desc": desc})
                mon.base_commits, mon.base_gates = mon.ncommit, mon.gates
                emit({"type": "events_applied", "commits": mon.ncommit, "gates": mon.gates})
                seen0 = len(build.watch_seen)
                with open("zz-sentinel-0", "w") as fh:
                    fh.write("x")
                os.unlink("zz-sentinel-0")
                for _ in range(3000):
                    if any(c == "DELETED" and os.path.basename(p) == "zz-sentinel-0"
                           for c, p in build.watch_seen[seen0:]):
                        break
                    await asyncio.sleep(0.001)
                for _ in range(3):
                    await asyncio.sleep(0.002)
                emit({"type": "rebuild_start", "commits": mon.ncommit})
                await handler.start_build_phase()
                await handler.wait_for_idle()
                emit({"type": "rebuild_end", "commits": mon.ncommit,
                      "rc": handler.builder.returncode.value if handler.builder.returncode is not None else None})
            finally:
                await handler.shutdown()

    b = H.run_build(spec.get("cfg") or {}, ctl=ctl, monitors=[mon], driver=driver,
                    env=spec.get("env") or {}, timeout=120)
    emit({"type": "done", "rc": None if b.returncode is None else b.returncode.value,
          "error": b.error and [b.error[0], str(b.error[1])[-1500:]], "commits": mon.ncommit,
          "gates": mon.gates, "writes": mon.writes})


if __name__ == "__main__":
    main()
