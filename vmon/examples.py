"""Run the repository's own example scripts (tests/examples/*/main.sh: the real CLI, real step
processes, real watch mode) with the commit monitor injected into the director process through
`vmon/sitehook/sitecustomize.py`.  Shared by the thorough tiers of C09 and C10."""

from __future__ import annotations

import json
import os
import shutil
import subprocess

VERIF = os.path.dirname(os.path.dirname(os.path.abspath(__file__)))

# examples whose scripts depend on wall-clock timing in this sandbox, or that are meant to end in
# an internal error (their monitors would report what the example provokes on purpose)
SKIP = {"keep_going", "watch_chain", "static_nglob", "watch_outdated_amend2", "amend_validate1"}


def example_names(repo):
    root = os.path.join(repo, "tests", "examples")
    return sorted(d for d in os.listdir(root)
                  if os.path.isfile(os.path.join(root, d, "main.sh")) and d not in SKIP)


def run_example(repo, name, workdir, timeout=120):
    """Returns {"rc": .., "directors": [records written by the site hook], "log": tail}."""
    src = os.path.join(repo, "tests", "examples", name)
    ex = os.path.join(workdir, "example")
    shutil.copytree(src, ex, symlinks=True)
    shutil.copy(os.path.join(repo, "tests", "examples", "example.rc"), os.path.join(workdir, "example.rc"))
    subprocess.run(r"sed -i -e '/^\(stepup\|sb\)/ s/ & #//' main.sh", shell=True, cwd=ex, check=False)
    out = os.path.join(workdir, "monitor")
    os.makedirs(out)
    env = {k: v for k, v in os.environ.items() if not k.startswith("STEPUP_") and k not in ("HERE", "ROOT")}
    env.update({"PATH": "/venv/bin:" + env.get("PATH", "/usr/bin:/bin"), "PYTHONUNBUFFERED": "yes",
                "COLUMNS": "80", "STEPUP_DEBUG": "1", "VERIF_MONITOR_OUT": out,
                "PYTHONPATH": os.pathsep.join([os.path.join(VERIF, "vmon", "sitehook"), repo, VERIF])})
    try:
        proc = subprocess.run(["./main.sh"], cwd=ex, env=env, stdin=subprocess.DEVNULL,
                              stdout=subprocess.PIPE, stderr=subprocess.STDOUT, text=True, timeout=timeout)
        rc, log = proc.returncode, proc.stdout[-1500:]
    except subprocess.TimeoutExpired as exc:
        rc, log = "timeout", str(exc.stdout)[-800:] if exc.stdout else ""
        subprocess.run(["pkill", "-f", ex], check=False)
    directors, errors = [], []
    for f in sorted(os.listdir(out)):
        path = os.path.join(out, f)
        if f.endswith(".json"):
            with open(path) as fh:
                directors.append(json.load(fh))
        elif f.endswith(".err"):
            with open(path) as fh:
                errors.append(fh.read())
    return {"rc": rc, "directors": directors, "hook_errors": errors, "log": log}
