"""Worker process: runs cases of one check, one JSON line in, one `@@RESULT` line out."""

import importlib
import json
import os
import shutil
import sys
import traceback


def main():
    check = sys.argv[1]
    # Keep the protocol channel private: anything the code under observation prints goes to stderr.
    proto = os.fdopen(os.dup(1), "w")
    os.dup2(2, 1)
    sys.stdout = sys.stderr
    mod = importlib.import_module(f"vmon.checks.{check}")
    scratch = os.environ["VERIF_WORKER_SCRATCH"]
    ncase = 0
    for line in sys.stdin:
        line = line.strip()
        if not line:
            continue
        case = json.loads(line)
        ncase += 1
        casedir = os.path.join(scratch, f"case{ncase}")
        os.makedirs(casedir, exist_ok=True)
        os.chdir(casedir)
        case["_dir"] = casedir
        try:
            res = mod.run_case(case)
        except BaseException as exc:  # noqa: BLE001
            if isinstance(exc, (KeyboardInterrupt, SystemExit)):
                raise
            res = {
                "status": "inconclusive",
                "reason": "harness exception: " + "".join(traceback.format_exception(exc))[-3000:],
            }
        finally:
            os.chdir(scratch)
            shutil.rmtree(casedir, ignore_errors=True)
        proto.write("@@RESULT " + json.dumps(res, default=str) + "\n")
        proto.flush()


if __name__ == "__main__":
    main()
