"""E6: project specifications, their rendering to files, seeded generators and history edits.

A specification (`spec`) is a JSON-able dict:

    sources   {path: text}                  user files
    steps     {sid: step}                   every worker step, see below
    plans     {wd: [item, ...]}             "." is the root plan; an item is one of
                                            ["static", [paths]]  ["tree", dir]  ["pattern", pat]
                                            ["glob", pat, template]  ["step", sid]  ["plan", wd]
                                            ["hold", [items]]
    env       {name: value}                 tracked environment variables

A step is a dict:
    kind      "do" (inline program: behaviour is part of the label) or "prog" (program in a file
              `progs/<sid>.json`, declared as an input: editing it changes an input, not the label)
    inp, out, vol, env   declared lists;   need "DEFAULT" | "OPTIONAL" | "PLAN";  res {name: n}
    wd        working directory label (the simulated step still uses root-relative paths)
    include   [paths]    inputs whose `include X` lines are followed with amend(inp=[X])
    amend_out [paths]    outputs declared with amend(out=...) while running
    amend_inp [paths]    inputs declared with amend(inp=...) while running (plain, no include)
    defines   [sids]     steps this step defines when it runs
    fail_if   path|None  fail when the file contains the marker FAIL
    salt      str        makes the label unique / lets an edit redefine the step
"""

from __future__ import annotations

import copy
import json
import os

from . import harness as H


# ---------------------------------------------------------------------------------------------
# Rendering
# ---------------------------------------------------------------------------------------------


def step_program(spec, sid):
    st = spec["steps"][sid]
    prog = []
    for name in st.get("env", []):
        prog.append({"a": "env", "name": name})
    if st.get("fail_if"):
        prog.append({"a": "fail_if", "path": st["fail_if"]})
    if st.get("amend_inp"):
        prog.append({"a": "amend", "inp": list(st["amend_inp"])})
    for path in st.get("inp", []):
        if path.startswith("progs/"):
            continue
        if path in st.get("include", []):
            prog.append({"a": "include", "path": path})
        else:
            prog.append({"a": "read", "path": path})
    for path in st.get("amend_inp", []):
        prog.append({"a": "read", "path": path})
    if st.get("amend_out") or st.get("amend_vol"):
        prog.append({"a": "amend", "out": list(st.get("amend_out", [])),
                     "vol": list(st.get("amend_vol", []))})
    for k in range(st.get("gates_before", 0)):
        prog.append({"a": "gate", "name": f"{sid}b{k}"})
    if st.get("hold_defines"):
        prog.append({"a": "hold"})
    for sub in st.get("defines", []):
        prog.append(step_action(spec, sub))
    if st.get("hold_defines"):
        prog.append({"a": "release"})
    for k in range(st.get("gates_after", 0)):
        prog.append({"a": "gate", "name": f"{sid}a{k}"})
    for path in list(st.get("out", [])) + list(st.get("amend_out", [])):
        prog.append({"a": "write", "path": path})
    for path in list(st.get("vol", [])) + list(st.get("amend_vol", [])):
        prog.append({"a": "write", "path": path, "content": f"volatile {path}\n"})
    if st.get("fail"):
        prog.append({"a": "fail", "rc": 3})
    return prog


def step_command(spec, sid):
    st = spec["steps"][sid]
    if st.get("kind") == "prog":
        return f"prog progs/{sid}.json"
    return "do " + json.dumps(step_program(spec, sid) + [{"a": "gate", "name": f"{sid}{st.get('salt', '')}"}],
                              sort_keys=True)


def step_action(spec, sid):
    st = spec["steps"][sid]
    inp = list(st.get("inp", []))
    if st.get("kind") == "prog" and f"progs/{sid}.json" not in inp:
        inp.append(f"progs/{sid}.json")
    act = {"a": "step", "cmd": step_command(spec, sid), "inp": inp, "out": list(st.get("out", [])),
           "vol": list(st.get("vol", [])), "env": list(st.get("env", [])),
           "need": st.get("need", "DEFAULT"), "wd": st.get("wd", ".")}
    if st.get("res"):
        act["res"] = dict(st["res"])
    if st.get("ovr"):
        act["ovr"] = dict(st["ovr"])
    return act


def plan_program(spec, wd):
    prog = []

    def render_items(items):
        for item in items:
            kind = item[0]
            if kind == "static":
                prog.append({"a": "static", "files": list(item[1])})
            elif kind == "tree":
                prog.append({"a": "static", "trees": [item[1]]})
            elif kind == "pattern":
                prog.append({"a": "static", "patterns": [item[1]]})
            elif kind == "glob":
                act = {"a": "glob", "pattern": item[1]}
                if len(item) > 2 and item[2]:
                    act["foreach"] = item[2]
                prog.append(act)
            elif kind == "step":
                prog.append(step_action(spec, item[1]))
            elif kind == "plan":
                prog.append({"a": "plan", "wd": item[1]})
            elif kind == "hold":
                prog.append({"a": "hold"})
                render_items(item[1])
                prog.append({"a": "release"})
            elif kind == "raw":
                prog.append(item[1])
            else:
                raise ValueError(kind)

    render_items(spec["plans"][wd])
    return prog


def user_files(spec):
    """{path: (text, mode)} of everything the user owns."""
    files = {}
    for path, text in spec["sources"].items():
        files[path] = (text, 0o644)
    for wd in spec["plans"]:
        path = "plan.py" if wd == "." else os.path.join(wd, "plan.py")
        files[path] = (H.SHEBANG + json.dumps(plan_program(spec, wd), sort_keys=True) + "\n", 0o755)
    for sid, st in spec["steps"].items():
        if st.get("kind") == "prog":
            files[f"progs/{sid}.json"] = (json.dumps(step_program(spec, sid), sort_keys=True) + "\n", 0o644)
    return files


def render(spec, previous=None):
    """Write the user files of `spec` into the current directory.

    Files whose content did not change are left untouched (same inode and mtime).
    Files that `previous` (the user files of the previous spec) had and `spec` no longer has are
    removed.  Returns the new user-file map.
    """
    files = user_files(spec)
    for path, (text, mode) in files.items():
        old = None
        if os.path.isfile(path):
            with open(path) as fh:
                old = fh.read()
        if old != text:
            H.write_file(path, text, mode)
    for path in (previous or {}):
        if path not in files and os.path.lexists(path):
            os.remove(path)
            parent = os.path.dirname(path)
            while parent and os.path.isdir(parent) and not os.listdir(parent):
                os.rmdir(parent)
                parent = os.path.dirname(parent)
    return files


def declared_outputs(spec):
    outs = set()
    for st in spec["steps"].values():
        for key in ("out", "vol", "amend_out", "amend_vol"):
            outs.update(st.get(key, []))
    return outs


# ---------------------------------------------------------------------------------------------
# Random projects (valid profile: no conflicts, every input declared or produced)
# ---------------------------------------------------------------------------------------------


def gen_project(rng, size=None, features=None, prob=None):
    """Generate a valid project.

    features: set of optional features to allow; default allows everything.
    """
    feats = features if features is not None else {
        "optional", "include", "amend_out", "subplan", "prog", "defines", "vol", "env", "tree",
        "pattern", "glob", "res", "hold", "wd"}
    pr = {"res": 0.2, "hold": 0.15, "hold_defines": 0.3, "defines": 0.2, "optional": 0.3}
    pr.update(prob or {})
    nsrc = rng.randint(2, 5)
    nstep = size or rng.randint(2, 8)
    spec = {"sources": {}, "steps": {}, "plans": {".": []}, "env": {}}
    for i in range(nsrc):
        spec["sources"][f"src/s{i}.txt"] = f"source {i} v0\n"
    if "tree" in feats and rng.random() < 0.4:
        for i in range(rng.randint(1, 3)):
            spec["sources"][f"data/d{i}.dat"] = f"data {i} v0\n"
    if "env" in feats and rng.random() < 0.4:
        spec["env"]["VERIF_E1"] = "one"
    produced = []  # (path, sid) regular outputs available as inputs for later steps
    order = []
    plans = ["."]
    if "subplan" in feats and rng.random() < 0.5:
        plans.append("sub")
        spec["plans"]["sub"] = []
        if rng.random() < 0.4:
            plans.append("sub/deep")
            spec["plans"]["sub/deep"] = []
    step_plan = {}
    for j in range(nstep):
        sid = f"t{j}"
        st = {"kind": "prog" if "prog" in feats and rng.random() < 0.3 else "do", "salt": "",
              "inp": [], "out": [f"out/{sid}.txt"], "need": "DEFAULT"}
        pool = sorted(spec["sources"]) + [p for p, _ in produced]
        for path in rng.sample(pool, min(len(pool), rng.choice([1, 1, 2, 3]))):
            st["inp"].append(path)
        if rng.random() < 0.25:
            st["out"].append(f"out/{sid}_b.txt")
        if "vol" in feats and rng.random() < pr.get("vol", 0.15):
            st["vol"] = [f"{rng.choice(['out', 'logs'])}/{sid}.log"]
        if "optional" in feats and rng.random() < pr["optional"]:
            st["need"] = "OPTIONAL"
        if "env" in feats and spec["env"] and rng.random() < 0.3:
            st["env"] = ["VERIF_E1"]
        if "res" in feats and rng.random() < pr["res"]:
            st["res"] = {rng.choice(["cpu", "gpu"]): rng.choice([1, 2])}
            if rng.random() < 0.2:
                st["res"]["gpu" if "cpu" in st["res"] else "cpu"] = 1
        if "amend_out" in feats and rng.random() < 0.2:
            st["amend_out"] = [f"out/{sid}_am.txt"]
        if "wd" in feats and rng.random() < 0.15:
            st["wd"] = rng.choice(["work", "work/w2"])
        spec["steps"][sid] = st
        order.append(sid)
        step_plan[sid] = rng.choice(plans)
        for path in st["out"] + st.get("amend_out", []):
            if path not in st.get("amend_out", []):
                produced.append((path, sid))
    # includes: a source that lists another source or an output; the reader follows it
    if "include" in feats:
        carriers, targets = set(), set()
        for sid in order:
            st = spec["steps"][sid]
            if rng.random() < 0.3:
                cands = [p for p in st["inp"] if p.startswith("src/") and p not in targets
                         and p not in carriers
                         and not any(p in s2.get("include", []) for s2 in spec["steps"].values())]
                if not cands:
                    continue
                carrier = rng.choice(cands)
                my_outs = set(st["out"] + st.get("amend_out", []))
                earlier = [p for p, s2 in produced if order.index(s2) < order.index(sid)
                           and p not in my_outs]
                pool = [p for p in sorted(spec["sources"]) if p != carrier and p not in carriers
                        and p.startswith("src/")] + earlier
                if not pool:
                    continue
                target = rng.choice(pool)
                if target not in st["inp"]:
                    spec["sources"][carrier] = spec["sources"][carrier] + f"include {target}\n"
                    st.setdefault("include", []).append(carrier)
                    carriers.add(carrier)
                    targets.add(target)
    # steps defined by other steps
    defined_by_step = set()
    if "defines" in feats:
        for sid in order:
            if rng.random() < pr["defines"]:
                later = [s for s in order if order.index(s) > order.index(sid)
                         and s not in defined_by_step]
                if later:
                    sub = rng.choice(later)
                    # the sub step may not feed the definer
                    if not (set(spec["steps"][sub]["out"]) & set(spec["steps"][sid]["inp"])):
                        spec["steps"][sid].setdefault("defines", []).append(sub)
                        defined_by_step.add(sub)
                        if "hold" in feats and rng.random() < pr["hold_defines"]:
                            spec["steps"][sid]["hold_defines"] = True
    # static declarations in the root plan
    root = spec["plans"]["."]
    statics = sorted(p for p in spec["sources"] if p.startswith("src/"))
    if "pattern" in feats and rng.random() < 0.3:
        root.append(["pattern", "src/*.txt"])
    else:
        root.append(["static", statics])
    data = sorted(p for p in spec["sources"] if p.startswith("data/"))
    if data:
        if rng.random() < 0.6:
            root.append(["tree", "data/"])
        else:
            root.append(["static", data])
        # a step that consumes the data files
        sid = f"t{nstep}"
        spec["steps"][sid] = {"kind": "do", "salt": "", "inp": data[:2], "out": [f"out/{sid}.txt"],
                              "need": "DEFAULT"}
        order.append(sid)
        step_plan[sid] = "."
    progs = sorted(f"progs/{sid}.json" for sid, st in spec["steps"].items() if st["kind"] == "prog")
    if progs:
        root.append(["static", progs])
    for wd in plans[1:]:
        root.append(["static", [os.path.join(wd, "plan.py")]]) if wd.count("/") == 0 else None
    if "sub/deep" in spec["plans"]:
        spec["plans"]["sub"].append(["static", ["sub/deep/plan.py"]])
    # glob-driven steps
    if "glob" in feats and rng.random() < 0.25:
        for k in range(rng.randint(1, 3)):
            spec["sources"][f"in/g{k}.src"] = f"glob source {k}\n"
        tmpl = {"cmd": "do " + json.dumps([{"a": "read", "path": "{m}"},
                                           {"a": "write", "path": "out/g_{b}.txt"}]),
                "inp": ["{m}"], "out": ["out/g_{b}.txt"]}
        root.append(["pattern", "in/*.src"])
        if rng.random() < 0.4:
            # a named wildcard restricted by a substitution, next to a file that only the
            # unrestricted wildcard would match
            spec["sources"]["in/gnotes.src"] = "not a glob source\n"
            root.append(["raw", {"a": "glob", "pattern": "in/${*n}.src", "subs": {"n": "g[0-9]"},
                                 "foreach": tmpl}])
        else:
            root.append(["glob", "in/*.src", tmpl])
    # place the steps
    hold_bucket = []
    for sid in order:
        if sid in defined_by_step:
            continue
        wd = step_plan[sid]
        item = ["step", sid]
        if wd == "." and "hold" in feats and rng.random() < pr["hold"]:
            hold_bucket.append(item)
        else:
            spec["plans"][wd].append(item)
    if hold_bucket:
        root.append(["hold", hold_bucket])
    if "sub" in spec["plans"]:
        root.append(["plan", "sub"])
        # A sub-plan that first needs the output of a step of the root plan: it is deferred when
        # it runs too early and run again later in the same build (its steps are recycled).
        first = order[0] if order else None
        if first is not None and step_plan.get(first) == "." and first not in defined_by_step \
                and spec["steps"][first].get("need", "DEFAULT") == "DEFAULT" \
                and pr.get("plan_amend", 0.3) > rng.random():
            # at the end: the steps of the sub-plan are defined first, so the second run of the
            # sub-plan recycles them
            spec["plans"]["sub"].append(["raw", {"a": "amend", "inp": [spec["steps"][first]["out"][0]]}])
            spec["plans"]["sub"].append(["raw", {"a": "read", "path": spec["steps"][first]["out"][0]}])
    if "sub/deep" in spec["plans"]:
        spec["plans"]["sub"].append(["plan", "sub/deep"])
    spec["order"] = order
    return spec


# ---------------------------------------------------------------------------------------------
# History edits on a specification
# ---------------------------------------------------------------------------------------------

EDIT_KINDS = ["change_source", "add_source", "drop_step", "readd_step", "redefine_step",
              "move_output", "toggle_need", "change_env", "edit_prog", "drop_subplan",
              "readd_subplan", "change_include", "add_glob_match", "del_glob_match",
              "static_to_tree", "drop_define", "add_amend_out", "drop_amend_out", "noop"]


def find_item(spec, pred):
    for wd, items in spec["plans"].items():
        stack = [(items, i) for i in range(len(items))]
        for lst, i in stack:
            if lst[i][0] == "hold":
                stack.extend((lst[i][1], k) for k in range(len(lst[i][1])))
            elif pred(lst[i]):
                return wd, lst, i
    return None


def consumers_of(spec, paths):
    paths = set(paths)
    return [sid for sid, st in spec["steps"].items()
            if paths & set(st.get("inp", []) + st.get("amend_inp", []))]


def active_steps(spec):
    """Steps placed in a plan or defined by an active step."""
    act = set()
    for wd, items in spec["plans"].items():
        stack = list(items)
        while stack:
            it = stack.pop()
            if it[0] == "hold":
                stack.extend(it[1])
            elif it[0] == "step":
                act.add(it[1])
    changed = True
    while changed:
        changed = False
        for sid in list(act):
            for sub in spec["steps"][sid].get("defines", []):
                if sub not in act:
                    act.add(sub)
                    changed = True
    return act


def included_targets(spec):
    t = set()
    for text in spec["sources"].values():
        for line in text.splitlines():
            if line.startswith("include "):
                t.add(line[8:].strip())
    return t


def apply_edit(rng, spec, kind, memory):
    """Apply one edit in place. Returns a short description, or None when not applicable.

    `memory` keeps what was dropped, so that it can be re-added unchanged.
    """
    steps = spec["steps"]
    act = sorted(active_steps(spec))
    if kind == "change_source":
        path = rng.choice(sorted(spec["sources"]))
        lines = spec["sources"][path].splitlines()
        lines[0] = lines[0] + "+"
        spec["sources"][path] = "\n".join(lines) + "\n"
        return f"change {path}"
    if kind == "add_source":
        n = len(spec["sources"])
        path = f"src/n{n}.txt"
        spec["sources"][path] = f"new source {n}\n"
        loc = find_item(spec, lambda it: it[0] == "static" and any(p.startswith("src/") for p in it[1]))
        if loc is not None:
            loc[1][loc[2]][1].append(path)
        elif find_item(spec, lambda it: it[0] == "pattern" and it[1] == "src/*.txt") is None:
            spec["plans"]["."].insert(0, ["static", [path]])
        if act:
            sid = rng.choice(act)
            steps[sid]["inp"].append(path)
        return f"add {path}"
    if kind in ("drop_step", "drop_define"):
        # drop a step nothing else consumes (keeps the project valid)
        incl = included_targets(spec)
        cands = []
        for sid in act:
            outs = steps[sid]["out"] + steps[sid].get("amend_out", [])
            users = [c for c in consumers_of(spec, outs) if c in act and c != sid]
            if not users and not (set(outs) & incl) and not steps[sid].get("defines"):
                cands.append(sid)
        if not cands:
            return None
        sid = rng.choice(cands)
        loc = find_item(spec, lambda it: it[0] == "step" and it[1] == sid)
        if loc is not None:
            if kind == "drop_define":
                return None
            wd, lst, i = loc
            memory.setdefault("dropped", []).append((sid, wd, copy.deepcopy(steps[sid])))
            del lst[i]
            return f"drop {sid}"
        for other in act:
            if sid in steps[other].get("defines", []):
                steps[other]["defines"].remove(sid)
                memory.setdefault("dropped_def", []).append((sid, other))
                return f"drop definition of {sid} by {other}"
        return None
    if kind == "readd_step":
        if memory.get("dropped"):
            sid, wd, st = memory["dropped"].pop()
            if wd in spec["plans"] and sid not in active_steps(spec):
                steps[sid] = st
                spec["plans"][wd].append(["step", sid])
                return f"re-add {sid} unchanged"
        if memory.get("dropped_def"):
            sid, other = memory["dropped_def"].pop()
            if other in active_steps(spec) and sid not in active_steps(spec):
                steps[other].setdefault("defines", []).append(sid)
                return f"re-add definition of {sid} by {other}"
        return None
    if kind == "redefine_step":
        if not act:
            return None
        sid = rng.choice(act)
        steps[sid]["salt"] = steps[sid].get("salt", "") + "r"
        if steps[sid].get("kind") == "prog":
            # a prog step's label does not change with the salt: change an input instead
            extra = [p for p in sorted(spec["sources"]) if p.startswith("src/") and p not in steps[sid]["inp"]]
            if extra:
                steps[sid]["inp"].append(extra[0])
        return f"redefine {sid}"
    if kind == "move_output":
        cands = [sid for sid in act if not [c for c in consumers_of(spec, steps[sid]["out"]) if c in act]
                 and not (set(steps[sid]["out"]) & included_targets(spec))]
        if not cands:
            return None
        sid = rng.choice(cands)
        old = steps[sid]["out"][0]
        new = old.replace("out/", "out/moved/") if "moved" not in old else old.replace("out/moved/", "out/")
        steps[sid]["out"][0] = new
        return f"move output of {sid} to {new}"
    if kind == "toggle_need":
        if not act:
            return None
        sid = rng.choice(act)
        steps[sid]["need"] = "OPTIONAL" if steps[sid].get("need", "DEFAULT") == "DEFAULT" else "DEFAULT"
        return f"need of {sid} -> {steps[sid]['need']}"
    if kind == "change_env":
        if not spec["env"]:
            return None
        name = sorted(spec["env"])[0]
        spec["env"][name] = None if spec["env"][name] == "two" else "two"
        return f"env {name} -> {spec['env'][name]}"
    if kind == "edit_prog":
        cands = [sid for sid in act if steps[sid].get("kind") == "prog"]
        if not cands:
            return None
        sid = rng.choice(cands)
        # behaviour change: start or stop writing an amended output, or toggle an env read
        if steps[sid].get("amend_out"):
            steps[sid]["amend_out"] = []
        else:
            steps[sid]["amend_out"] = [f"out/{sid}_am.txt"]
        return f"edit program of {sid}"
    if kind == "drop_subplan":
        loc = find_item(spec, lambda it: it[0] == "plan")
        if loc is None:
            return None
        wd, lst, i = loc
        sub = lst[i][1]
        # only when nothing outside consumes what the sub plan (transitively) produces
        inner = set()
        for w, items in spec["plans"].items():
            if w == sub or w.startswith(sub + "/"):
                for it in items:
                    if it[0] == "step":
                        inner.add(it[1])
        changed = True
        while changed:
            changed = False
            for sid in list(inner):
                for s2 in steps[sid].get("defines", []):
                    if s2 not in inner:
                        inner.add(s2)
                        changed = True
        outs = set()
        for sid in inner:
            outs.update(steps[sid]["out"] + steps[sid].get("amend_out", []))
        outside = [c for c in consumers_of(spec, outs) if c in active_steps(spec) and c not in inner]
        if outside or (outs & included_targets(spec)):
            return None
        memory.setdefault("dropped_plans", []).append((wd, sub))
        del lst[i]
        return f"drop sub-plan {sub}"
    if kind == "readd_subplan":
        if not memory.get("dropped_plans"):
            return None
        wd, sub = memory["dropped_plans"].pop()
        if wd in spec["plans"] and find_item(spec, lambda it: it[0] == "plan" and it[1] == sub) is None:
            spec["plans"][wd].append(["plan", sub])
            return f"re-add sub-plan {sub} unchanged"
        return None
    if kind == "change_include":
        carriers = [p for p, text in spec["sources"].items() if "include " in text]
        if not carriers:
            return None
        path = rng.choice(sorted(carriers))
        lines = [l for l in spec["sources"][path].splitlines() if not l.startswith("include ")]
        if rng.random() < 0.5:
            others = [p for p in sorted(spec["sources"]) if p != path and p.startswith("src/")
                      and "include " not in spec["sources"][p]]
            if others:
                lines.append(f"include {rng.choice(others)}")
        spec["sources"][path] = "\n".join(lines) + "\n"
        return f"change includes of {path}"
    if kind == "add_glob_match":
        named = find_item(spec, lambda it: it[0] == "raw" and it[1].get("a") == "glob") is not None
        if find_item(spec, lambda it: it[0] == "glob") is None and not named:
            return None
        n = len([p for p in spec["sources"] if p.startswith("in/")])
        name = f"in/g{n}.src" if named and n < 10 else f"in/g{n}x.src"
        spec["sources"][name] = f"glob source new {n}\n"
        return f"add a glob match {name}"
    if kind == "del_glob_match":
        cands = sorted(p for p in spec["sources"] if p.startswith("in/"))
        if len(cands) < 2:
            return None
        del spec["sources"][cands[-1]]
        return f"delete glob match {cands[-1]}"
    if kind == "static_to_tree":
        loc = find_item(spec, lambda it: it[0] == "static" and it[1] and all(p.startswith("data/") for p in it[1]))
        if loc is not None:
            loc[1][loc[2]] = ["tree", "data/"]
            return "static data files -> tree"
        loc = find_item(spec, lambda it: it[0] == "tree" and it[1] == "data/")
        if loc is not None:
            data = sorted(p for p in spec["sources"] if p.startswith("data/"))
            loc[1][loc[2]] = ["static", data]
            return "tree -> static data files"
        return None
    if kind == "add_amend_out":
        cands = [sid for sid in act if not steps[sid].get("amend_out")]
        if not cands:
            return None
        sid = rng.choice(cands)
        steps[sid]["amend_out"] = [f"out/{sid}_am.txt"]
        return f"{sid} amends an extra output"
    if kind == "drop_amend_out":
        cands = [sid for sid in act if steps[sid].get("amend_out")
                 and not [c for c in consumers_of(spec, steps[sid]["amend_out"]) if c in act]
                 and not (set(steps[sid]["amend_out"]) & included_targets(spec))]
        if not cands:
            return None
        sid = rng.choice(cands)
        steps[sid]["amend_out"] = []
        return f"{sid} stops amending its extra output"
    if kind == "noop":
        return "no change"
    return None


BREAK_ITEM = ["raw", {"a": "fail", "rc": 3}]


def break_plan(rng, spec, memory):
    """Make one plan fail at a random position (what comes after it stays detached in that build
    and nothing is cleaned up); repaired in the next phase."""
    if memory.get("broken") is not None:
        return None
    wd = rng.choice(sorted(spec["plans"]))
    items = spec["plans"][wd]
    pos = rng.randint(0, len(items))
    items.insert(pos, copy.deepcopy(BREAK_ITEM))
    memory["broken"] = wd
    return f"plan {wd} fails at item {pos}"


def repair_plan(spec, memory):
    wd = memory.pop("broken", None)
    if wd is None or wd not in spec["plans"]:
        return None
    spec["plans"][wd] = [it for it in spec["plans"][wd] if it != BREAK_ITEM]
    return f"plan {wd} repaired"


def gen_history(rng, spec, nphase=None, breaks=0.0):
    """Return a list of phases; each phase is {"edits": [...], "spec": spec after the edits}.

    breaks: probability per phase (except the last) that a plan is broken so that its build fails;
    the next phase repairs it, together with its other edits."""
    nphase = nphase or rng.randint(1, 4)
    memory = {}
    cur = copy.deepcopy(spec)
    phases = []
    for k_phase in range(nphase):
        edits = []
        if breaks:
            desc = repair_plan(cur, memory)
            if desc is not None:
                edits.append(["repair_plan", desc])
            elif k_phase < nphase - 1 and rng.random() < breaks:
                desc = break_plan(rng, cur, memory)
                if desc is not None:
                    edits.append(["break_plan", desc])
        for _k in range(rng.choice([1, 1, 2, 3])):
            kind = rng.choice(EDIT_KINDS)
            if memory.get("dropped") or memory.get("dropped_def"):
                if rng.random() < 0.4:
                    kind = "readd_step"
            if memory.get("dropped_plans") and rng.random() < 0.5:
                kind = "readd_subplan"
            desc = apply_edit(rng, cur, kind, memory)
            if desc is not None:
                edits.append([kind, desc])
        phases.append({"edits": edits, "spec": copy.deepcopy(cur)})
    return phases
