"""Independent re-implementations of the workflow invariants (DESIGN Appendix A).

Written from the property statements and docstrings, evaluated in Python on table snapshots.
Each checker has the signature `(mon, prev, snap, tx)` and reports through `mon.finding`.
"""

from __future__ import annotations

P, R, S, F, C = 21, 22, 23, 24, 25
UNDECLARED, UNCONFIRMED, MISSING, CONFIRMED, PLANNED, BUILT, OUTDATED, VOLATILE = range(11, 19)
OPTIONAL, DEFAULT, TARGET, PLAN = 31, 32, 33, 34
STATIC_STATES = {UNCONFIRMED, MISSING, CONFIRMED}
OUTPUT_STATES = {PLANNED, BUILT, OUTDATED}
STATE_NAME = {P: "PENDING", R: "RUNNING", S: "SUCCEEDED", F: "FAILED", C: "CHECKING"}
FSTATE_NAME = {11: "UNDECLARED", 12: "UNCONFIRMED", 13: "MISSING", 14: "CONFIRMED", 15: "PLANNED",
               16: "BUILT", 17: "OUTDATED", 18: "VOLATILE"}

ALLOWED_STEP_TRANSITIONS = {(P, R), (P, C), (R, S), (R, F), (R, P), (C, S), (C, P), (C, F),
                            (S, P), (F, P)}

STALE_AFTER_MECH = ("cached _implied_need/_tail_time of a producer is stale after its consumer "
                    "dropped a dynamic input")


def role_of(state):
    if state in STATIC_STATES:
        return "static"
    if state in OUTPUT_STATES:
        return "output"
    if state == VOLATILE:
        return "volatile"
    return None


def label(snap, i):
    n = snap["node"].get(i)
    return f"{n[0]}:{n[1]}" if n else f"#{i}"


# ---------------------------------------------------------------------------------------------
# Structural invariants (C09)
# ---------------------------------------------------------------------------------------------


def check_structure(mon, prev, snap, tx):
    if snap is None:
        return
    mon.count("structure_checks")
    nodes = snap["node"]
    # (1) detached == not reachable from the root through creator links
    children = {}
    for i, (kind, lab, creator, detached) in nodes.items():
        if creator is not None and creator != i:
            children.setdefault(creator, []).append(i)
    reach = set()
    stack = [1] if 1 in nodes else []
    while stack:
        n = stack.pop()
        if n in reach:
            continue
        reach.add(n)
        stack.extend(children.get(n, ()))
    for i, (kind, lab, creator, detached) in nodes.items():
        if detached == (i in reach):
            mon.finding("detached flag disagrees with reachability from the root",
                        f"{label(snap, i)} detached={detached} reachable={i in reach} "
                        f"(transaction {tx.index}, {tx.task_name})", {"node": label(snap, i)})
    # (2) dependency kinds and acyclicity
    succ = {}
    for idep, (src, snk) in snap["dep"].items():
        ks, kk = nodes.get(src, ("?",))[0], nodes.get(snk, ("?",))[0]
        if (ks, kk) not in (("file", "step"), ("step", "file"), ("st", "file")):
            mon.finding("dependency edge between wrong kinds", f"{label(snap, src)} -> {label(snap, snk)}")
        succ.setdefault(src, []).append(snk)
    color = {}
    for start in list(succ):
        if color.get(start):
            continue
        stack = [(start, iter(succ.get(start, ())))]
        color[start] = 1
        while stack:
            node, it = stack[-1]
            for nxt in it:
                if color.get(nxt) == 1:
                    mon.finding("dependency cycle", f"through {label(snap, nxt)}")
                    break
                if not color.get(nxt):
                    color[nxt] = 1
                    stack.append((nxt, iter(succ.get(nxt, ()))))
                    break
            else:
                color[node] = 2
                stack.pop()
    # (3)-(5) file rows
    for i, (state, hash_json) in snap["file"].items():
        kind, lab, creator, detached = nodes[i]
        if not detached and state == UNDECLARED:
            mon.finding("attached file is UNDECLARED", label(snap, i))
        if not detached and creator is None:
            mon.finding("attached file without a declaration", label(snap, i))
        if state in (CONFIRMED, BUILT, OUTDATED) and hash_json is None:
            mon.finding("file state requires a hash but none is stored",
                        f"{label(snap, i)} {FSTATE_NAME[state]}")
        if state in (MISSING, PLANNED, VOLATILE) and hash_json is not None:
            mon.finding("file state forbids a hash but one is stored",
                        f"{label(snap, i)} {FSTATE_NAME[state]}")
    # attached outputs of SUCCEEDED steps are BUILT or VOLATILE
    for idep, (src, snk) in snap["dep"].items():
        st = snap["step"].get(src)
        if st is None or st["state"] != S:
            continue
        fstate = snap["file"].get(snk)
        if fstate is None:
            continue
        if not nodes[snk][3] and fstate[0] not in (BUILT, VOLATILE):
            mon.finding("succeeded step has an output that is not built",
                        f"{label(snap, src)} -> {label(snap, snk)} is {FSTATE_NAME[fstate[0]]} "
                        f"(transaction {tx.index}, {tx.task_name})")
    # an attached BUILT output has a producer that is SUCCEEDED (FileState.BUILT: "an output of a
    # step that has completed"; every path that takes a step out of SUCCEEDED outdates them)
    for idep, (src, snk) in snap["dep"].items():
        st = snap["step"].get(src)
        frow = snap["file"].get(snk)
        if st is None or frow is None or frow[0] != BUILT or nodes[snk][3]:
            continue
        if st["state"] != S:
            mon.finding("BUILT output of a step that is not SUCCEEDED",
                        f"{label(snap, snk)} is BUILT, {label(snap, src)} is {STATE_NAME[st['state']]} "
                        f"(transaction {tx.index}, {tx.task_name})")
    # (6) step rows
    for i, st in snap["step"].items():
        if st["deferred"] and st["state"] != P:
            mon.finding("deferred flag on a step that is not pending", label(snap, i))
        if bool(st["_has_hash"]) != (i in snap["step_hash"]):
            mon.finding("_has_hash does not mirror the stored hash",
                        f"{label(snap, i)} _has_hash={st['_has_hash']} stored={i in snap['step_hash']}")
    if snap.get("step_need_count") is not None:
        recount = {}
        for i, st in snap["step"].items():
            if not nodes[i][3]:
                key = (st["_implied_need"], int(st["state"] == S))
                recount[key] = recount.get(key, 0) + 1
        cached = {k: v for k, v in snap["step_need_count"].items() if v != 0}
        if cached != recount:
            mon.finding("step_need_count differs from a recount",
                        f"cached={cached} recount={recount} (transaction {tx.index}, {tx.task_name})")
        if any(v < 0 for v in snap["step_need_count"].values()):
            mon.finding("step_need_count has a negative bucket", str(snap["step_need_count"]))


def check_transitions(mon, prev, snap, tx):
    if snap is None or prev is None:
        return
    mon.count("transition_checks")
    for i, st in snap["step"].items():
        old = prev["step"].get(i)
        if old is None:
            continue
        a, b = old["state"], st["state"]
        if a == b:
            continue
        mon.count(f"step_{STATE_NAME[a][0]}{STATE_NAME[b][0]}")
        recreated = prev["node"][i][2] != snap["node"][i][2]  # creator changed: re-created/recycled
        if (a, b) not in ALLOWED_STEP_TRANSITIONS and not recreated:
            mon.finding("step moves along an undocumented state transition",
                        f"{label(snap, i)}: {STATE_NAME[a]} -> {STATE_NAME[b]} "
                        f"(transaction {tx.index}, {tx.task_name})")
        if a == P and b in (R, C) and not tx.is_pop:
            mon.finding("dispatch outside a dispatch transaction",
                        f"{label(snap, i)}: {STATE_NAME[a]} -> {STATE_NAME[b]} in {tx.task_name}")
        if a == R and b == P and st["defer_count"] > old["defer_count"]:
            cap = mon.defer_cap if hasattr(mon, "defer_cap") else None
            if cap is not None and st["defer_count"] > cap:
                mon.finding("step deferred beyond the defer cap",
                            f"{label(snap, i)} defer_count={st['defer_count']} cap={cap}")
    for i, (state, _h) in snap["file"].items():
        old = prev["file"].get(i)
        if old is None:
            continue
        pn, nn = prev["node"][i], snap["node"][i]
        if pn[3] or nn[3] or pn[2] != nn[2]:
            continue  # was or is detached, or re-created by another creator
        ra, rb = role_of(old[0]), role_of(state)
        if ra != rb:
            mon.finding("attached file changes role without being re-declared",
                        f"{label(snap, i)}: {FSTATE_NAME[old[0]]} -> {FSTATE_NAME[state]} "
                        f"(transaction {tx.index}, {tx.task_name})")
        elif ra == "static" and old[0] in (CONFIRMED, MISSING) and state == UNCONFIRMED:
            mon.finding("confirmed static file falls back to UNCONFIRMED",
                        f"{label(snap, i)} (transaction {tx.index}, {tx.task_name})")


# ---------------------------------------------------------------------------------------------
# Definitions of the cached scheduling attributes (C10)
# ---------------------------------------------------------------------------------------------


class Model:
    """Definitional values computed from a snapshot."""

    def __init__(self, snap, override_state=None):
        self.snap = snap
        self.nodes = snap["node"]
        self.steps = {i: dict(st) for i, st in snap["step"].items()}
        for i, state in (override_state or {}).items():
            if i in self.steps:
                self.steps[i]["state"] = state
        self.out_edges = {}
        self.in_edges = {}
        for idep, (src, snk) in snap["dep"].items():
            self.out_edges.setdefault(src, []).append((idep, snk))
            self.in_edges.setdefault(snk, []).append((idep, src))
        self.targets = snap.get("target_path") or set()
        self.target_dirs = snap.get("target_dir") or {}
        self.threshold = DEFAULT if (self.targets or self.target_dirs) else OPTIONAL
        self._implied = {}
        self._tail = {}

    def attached(self, i):
        return not self.nodes[i][3]

    def consumers(self, s):
        out = []
        for _, f in self.out_edges.get(s, ()):
            if self.nodes[f][0] != "file":
                continue
            for _, c in self.out_edges.get(f, ()):
                if c in self.steps and self.attached(c):
                    out.append(c)
        return out

    def tgt(self, s):
        st = self.steps[s]
        for _, f in self.out_edges.get(s, ()):
            frow = self.snap["file"].get(f)
            if frow is None or not self.attached(f) or frow[0] == VOLATILE:
                continue
            lab = self.nodes[f][1]
            if lab in self.targets:
                return TARGET
        if st["need"] == DEFAULT:
            for _, f in self.out_edges.get(s, ()):
                frow = self.snap["file"].get(f)
                if frow is None or not self.attached(f) or frow[0] == VOLATILE:
                    continue
                lab = self.nodes[f][1]
                if any(lab.startswith(d) for d in self.target_dirs):
                    return TARGET
        return OPTIONAL

    def implied(self, s, _stack=None):
        if s in self._implied:
            return self._implied[s]
        _stack = _stack or set()
        if s in _stack:
            return OPTIONAL
        _stack.add(s)
        val = max([self.steps[s]["need"], self.tgt(s)] + [self.implied(c, _stack) for c in self.consumers(s)])
        _stack.discard(s)
        self._implied[s] = val
        return val

    def tail(self, s, _stack=None):
        if s in self._tail:
            return self._tail[s]
        _stack = _stack or set()
        if s in _stack:
            return 0.0
        _stack.add(s)
        val = self.steps[s]["duration"] + max([self.tail(c, _stack) for c in self.consumers(s)] + [0.0])
        _stack.discard(s)
        self._tail[s] = val
        return val

    def safe(self, s, ignore_hold=False):
        cur = self.nodes[s][2]
        seen = set()
        while cur is not None and cur not in seen:
            seen.add(cur)
            kind = self.nodes[cur][0]
            if kind == "root":
                return True
            if kind == "step":
                st = self.steps[cur]
                if st["state"] not in (R, S):
                    return False
                if not ignore_hold and st["_holding"] != 0:
                    return False
            cur = self.nodes[cur][2]
        return False

    def ready(self, s):
        for idep, f in self.in_edges.get(s, ()):
            frow = self.snap["file"].get(f)
            if frow is None:
                continue
            state = frow[0]
            detached = self.nodes[f][3]
            dynamic = idep in self.snap["dynamic_dep"]
            if state == VOLATILE:
                return False
            if dynamic:
                if not detached and state in (PLANNED, OUTDATED):
                    return False
            elif detached or state not in (BUILT, CONFIRMED):
                return False
        return True

    def resources_ok(self, s):
        avail = self.snap.get("available_resource") or {}
        for (node, name), units in self.snap["step_resource"].items():
            if node != s:
                continue
            if name not in avail:
                return False
            used = sum(u for (n2, nm), u in self.snap["step_resource"].items()
                       if nm == name and n2 != s and self.steps.get(n2, {}).get("state") == R)
            if avail[name] - used < units:
                return False
        return True

    def eligible(self, s):
        st = self.steps[s]
        if not self.attached(s) or st["state"] != P or st["deferred"]:
            return False
        if self.implied(s) <= self.threshold:
            return False
        if not self.ready(s):
            return False
        has_hash = s in self.snap["step_hash"]
        if not (self.safe(s) or (has_hash and self.safe(s, ignore_hold=True))):
            return False
        return has_hash or self.resources_ok(s)

    def why_not(self, s):
        st = self.steps[s]
        return {
            "attached": self.attached(s), "state": st["state"], "deferred": st["deferred"],
            "implied": self.implied(s), "threshold": self.threshold, "ready": self.ready(s),
            "safe": self.safe(s), "safe_nh": self.safe(s, True),
            "has_hash": s in self.snap["step_hash"], "resources": self.resources_ok(s),
        }


def check_dispatch(mon, prev, snap, tx):
    """C10 (a) and (b): evaluated for every decision of pop_next_job.

    The definitions are evaluated on the tables as they were at the moment of the choice (a snapshot
    taken inside the transaction, right after `Scheduler._get_next_step` returned), because the same
    transaction may go on to change the graph as a consequence of the choice (the new state, the
    steps that a step about to run created earlier).  The snapshot of the commit tells which step
    really left PENDING."""
    decision, mon.decision = getattr(mon, "decision", None), None
    if snap is None or not tx.is_pop:
        return
    mon.count("dispatch_decisions")
    dispatched = {}
    if prev is not None:
        for i, st in snap["step"].items():
            old = prev["step"].get(i)
            if old is not None and old["state"] == P and st["state"] in (R, C):
                dispatched[i] = st["state"]
    if decision is not None:
        dsnap, chosen = decision
        mon.count("decisions_seen_at_the_choice")
        model = Model(dsnap)
        want = {} if chosen is None else {chosen[0]: chosen[1]}
        if prev is not None and want != dispatched:
            mon.finding("the step that left PENDING is not the one that was chosen",
                        f"chosen {[label(dsnap, i) for i in want]} dispatched {[label(snap, i) for i in dispatched]}")
    elif not dispatched:
        # pop_next_job returned without choosing (it found the scheduler draining once it had the
        # database lock): no decision was taken, so there is nothing to judge
        mon.count("pops_without_a_decision")
        return
    else:
        dsnap = snap
        model = Model(snap, override_state={i: P for i in dispatched})
    flags_before = None
    if prev is not None:
        flags_before = tuple(
            min(2, sum(1 for st in prev["step"].values() if st[col]))
            for col in ("_check_safe", "_check_after", "_check_ready"))
    kind = "none" if not dispatched else ("check" if C in dispatched.values() else "run")
    mon.decision_classes.add((flags_before, kind))
    for i, new_state in dispatched.items():
        mon.count("dispatches")
        if i not in model.steps or not model.eligible(i):
            mon.finding("dispatch of a step that is not eligible by the definitions",
                        f"{label(snap, i)} -> {STATE_NAME[new_state]}: {model.why_not(i) if i in model.steps else 'unknown step'}",
                        {"step": label(snap, i)})
        has_hash = i in dsnap["step_hash"]
        if has_hash != (new_state == C):
            mon.finding("dispatch kind does not match the stored hash",
                        f"{label(snap, i)} -> {STATE_NAME[new_state]} has_hash={has_hash}")
    if len(dispatched) > 1:
        mon.finding("two steps dispatched in one decision", str([label(snap, i) for i in dispatched]))
    # (b) cached columns agree with their definitions; no flag left
    for i, st in model.steps.items():
        raw = dsnap["step"][i]
        if raw["_check_after"] or raw["_check_ready"] or (
                raw["_check_safe"] and (decision is not None or i not in dispatched)):
            mon.finding("recompute flag still set after a dispatch decision",
                        f"{label(dsnap, i)} safe={raw['_check_safe']} after={raw['_check_after']} "
                        f"ready={raw['_check_ready']}")
        if not model.attached(i):
            continue
        mon.count("cached_rows_compared")
        want_need = model.implied(i)
        want_tail = model.tail(i)
        if raw["_implied_need"] != want_need or abs(raw["_tail_time"] - want_tail) > 1e-9 * max(1.0, want_tail):
            mech = "cached _implied_need/_tail_time differs from its definition"
            if stale_after_dropped_dynamic(mon, prev, dsnap, i):
                mech = STALE_AFTER_MECH
            mon.finding(mech,
                        f"{label(dsnap, i)}: cached need={raw['_implied_need']} tail={raw['_tail_time']} "
                        f"definition need={want_need} tail={want_tail} (transaction {tx.index})",
                        {"step": label(dsnap, i)})
        if bool(raw["_safe"]) != model.safe(i) or bool(raw["_safe_ignoring_hold"]) != model.safe(i, True):
            chain = []
            cur = dsnap["node"][i][2]
            while cur is not None and cur in model.steps and len(chain) < 6:
                cs = model.steps[cur]
                chain.append((label(dsnap, cur)[:60], STATE_NAME[cs["state"]], cs["_holding"],
                              cs["_safe"], cs["_check_safe"], dsnap["node"][cur][3]))
                cur = dsnap["node"][cur][2]
            mon.finding("cached _safe differs from its definition",
                        f"{label(dsnap, i)}: cached {raw['_safe']}/{raw['_safe_ignoring_hold']} "
                        f"definition {model.safe(i)}/{model.safe(i, True)} (transaction {tx.index}) "
                        f"state={STATE_NAME[raw['state']]} creator chain (label,state,holding,_safe,"
                        f"_check_safe,detached)={chain} dispatched={[label(snap, d)[:50] for d in dispatched]}")
        if bool(raw["_ready"]) != model.ready(i):
            mon.finding("cached _ready differs from its definition",
                        f"{label(dsnap, i)}: cached {raw['_ready']} definition {model.ready(i)}")
    # (c) at the choice: nothing chosen although a step is eligible by the definitions
    if decision is not None and not dispatched:
        left = [label(dsnap, i) for i in model.steps if model.eligible(i)]
        if left:
            mon.finding("no step chosen although one is eligible by the definitions", str(left[:3]))


def stale_after_dropped_dynamic(mon, prev, snap, step_i):
    """Classifier for the listed finding: the step's cached value is what its definition gave
    while a consumer still had a (since deleted) dynamic edge from one of its outputs."""
    if not mon.dropped_dynamic_producers:
        return False
    model = Model(snap)
    seen, stack = set(), [step_i]
    while stack:
        cur = stack.pop()
        if cur in seen:
            continue
        seen.add(cur)
        if cur in mon.dropped_dynamic_producers:
            return True
        stack.extend(model.consumers(cur))
    return False


def track_dropped_dynamic(mon, prev, snap, tx):
    """Remember producers that lost a consumer through a deleted dynamic file->step edge."""
    if snap is None or prev is None:
        return
    for idep in prev["dynamic_dep"]:
        if idep in snap["dep"]:
            continue
        src, snk = prev["dep"].get(idep, (None, None))
        if src is None or prev["node"].get(src, ("",))[0] != "file":
            continue
        # producers of the file
        for i2, (s2, k2) in prev["dep"].items():
            if k2 == src and s2 in prev["step"]:
                mon.dropped_dynamic_producers.add(s2)


def make_monitor(defer_cap=100, extra=(), dropped=None):
    from .commitmon import CommitMonitor

    mon = CommitMonitor([track_dropped_dynamic, check_structure, check_transitions,
                         check_dispatch, *extra])
    mon.defer_cap = defer_cap
    mon.decision_classes = set()
    # May be shared between the builds of one history: a stale cached value survives restarts.
    mon.dropped_dynamic_producers = dropped if dropped is not None else set()
    mon.phase_end_checkers = [check_phase_end]
    return mon


def eligible_left(snap):
    """C10 (c): the definitionally eligible steps in a settled snapshot."""
    model = Model(snap)
    return [label(snap, i) for i in model.steps if model.eligible(i)]


async def check_phase_end(mon, build, handler):
    """C10 (c): when a build phase ends while not draining, no eligible step may be left."""
    from .commitmon import snapshot

    db = handler.db
    async with db:
        snap = snapshot(db._held.con)
    mon.count("phase_ends")
    if handler.scheduler.draining:
        mon.count("phase_ends_draining")
        return
    left = eligible_left(snap)
    if left:
        model = Model(snap)
        ids = [i for i in model.steps if model.eligible(i)]
        mech = "build phase ended while an eligible step was left"
        if all(stale_after_dropped_dynamic(mon, None, snap, i) for i in ids):
            mech = STALE_AFTER_MECH
        mon.finding(mech, f"eligible: {left[:5]}", {"eligible": left[:5]})


async def check_lost_wakeup(mon, build):
    """C10 (c): quiescent director, free job slot, parked job loop, yet an eligible step exists."""
    from .commitmon import snapshot

    handler = build.handler
    if handler is None or not getattr(build, "in_phase", False):
        return
    if handler.scheduler.draining or len(handler.builder.running_tasks) >= handler.builder.njob:
        return
    # The job loop has to be parked on its wake-up event: between clearing the event and its
    # next pop it awaits other things (reports), and an eligible step seen then is about to
    # be dispatched, not forgotten.
    task = getattr(build, "job_loop_task", None)
    if task is not None and not task.done():
        coro = task.get_coro()
        while getattr(getattr(coro, "cr_await", None), "cr_code", None) is not None:
            coro = coro.cr_await
        code = getattr(coro, "cr_code", None)
        parked = code is not None and code.co_name == "wait" and code.co_filename.endswith("locks.py")
        if not parked:
            mon.count("quiescent_checks_skipped_loop_not_parked")
            return
    db = handler.db
    async with db:
        snap = snapshot(db._held.con)
    mon.count("quiescent_checks")
    left = eligible_left(snap)
    if left:
        recent = [(e["type"], e.get("name"), str(e.get("args", e.get("step", "")))[:60])
                  for e in build.events[-10:]]
        mon.finding("eligible step while the job loop is parked (lost wake-up)",
                    f"eligible: {left[:3]} running={len(handler.builder.running_tasks)} "
                    f"njob={handler.builder.njob} last transactions={mon.history[-6:]} "
                    f"last events={recent}", {"eligible": left[:3]})
