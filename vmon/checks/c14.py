"""C14: a watch-mode rebuild is equivalent to a restart.

One real director (mode A) is kept in watch mode on a generated project.  In every round the
driver applies file-system events (real files, real inotify), waits until the watcher has read
everything that was queued before a sentinel file's own events (barrier), copies the whole project
directory (database included) aside, and then asks for a rebuild.  After the session each copy
is built by a fresh director (a restart on the same file-system state).

Oracle per round: files on disk, canonical graph text (read with the real `format_str()` inside
the running director and after the restart) and return code of the watch-mode rebuild equal those
of the restart.
"""

from __future__ import annotations

import asyncio
import json
import os
import random
import shutil

from vmon import gen, harness as H
from vmon.checks import c01

PROPERTY = "C14"
LEVEL = "exploration"
RULE = "distinct (sequence of event kinds in a round, return code of the rebuild) rounds compared with a restart"
TIMEOUT = 1200
REQUIRED_COUNTERS = ["sessions", "rounds_compared", "events_applied", "rounds_with_rebuild_work",
                     "events_seen_by_watcher", "events_during_build"]
ASSUMPTIONS = ["mode A; the events are applied while the director is in its watch phase, except "
               "'during_build' events on static files, applied while a build phase runs",
               "the barrier orders the driver after every inotify event queued before it; a directory "
               "created by an event gets its watch when the watcher processes that event"]

NEWDIR_MECH = ("files in a directory that did not exist when the watch phase started are not seen by "
               "glob patterns and static trees until a restart")

UNDECLARED_MECH = ("the watcher hashes a changed file whose node is detached and UNDECLARED and the "
                   "director dies with a ConsistencyError (no EXTERNAL transition for that state)")

EVENT_KINDS = ["modify_source", "modify_source", "create_match", "delete_match", "modify_output",
               "delete_output", "remove_dir", "new_subdir", "move_dir", "create_delete", "modify_restore",
               "delete_source", "restore_source", "touch_source", "new_sibling_dir", "new_empty_dir",
               "move_dir_then_write"]

_installed = {"done": False}


def install_watch_hook():
    if _installed["done"]:
        return
    from stepup.core.watcher import Watcher

    orig = Watcher.record_change

    async def record_change(self, change, path, *, during_build=False):
        b = H._CURRENT.get("build")
        if b is not None:
            seen = getattr(b, "watch_seen", None)
            if seen is not None:
                seen.append((change.name, str(path)))
        return await orig(self, change, path, during_build=during_build)

    Watcher.record_change = record_change
    _installed["done"] = True


ORDER_MECH = ("an externally modified output and a change upstream of it arrive in one batch: whether "
              "the consumers of the output are made pending depends on the order in which the two are applied")


def classify_graph_difference(ga, gb):
    """ORDER_MECH when the two attached graphs have the same nodes and relations and differ only
    in how far 'pending' has spread: step states SUCCEEDED / PENDING and file states
    BUILT / OUTDATED / PLANNED (with the digests that go with them)."""
    pa, pb = H.parse_graph(ga), H.parse_graph(gb)
    if set(pa) != set(pb):
        return None
    volatile_keys = {"state", "inp_digest", "out_digest", "explained", "digest", "mode", "size", "mtime", "inode"}
    for head in pa:
        a, b = pa[head], pb[head]
        if sorted(a["rels"]) != sorted(b["rels"]):
            return None
        da = [(k, v) for k, v in a["props"] if k not in volatile_keys]
        db = [(k, v) for k, v in b["props"] if k not in volatile_keys]
        if da != db:
            return None
        sa = [v for k, v in a["props"] if k == "state"]
        sb = [v for k, v in b["props"] if k == "state"]
        if sa != sb:
            allowed = ({"SUCCEEDED", "PENDING"}, {"BUILT", "OUTDATED", "PLANNED"})
            if not any(set(sa) | set(sb) <= grp for grp in allowed):
                return None
    return ORDER_MECH


def scenario_match_deleted_then_restored():
    """A match of a static pattern that a step reads is deleted (the plan runs again and no longer
    declares it, the step still waits for it: its node is detached and has no role) and comes back."""
    import copy
    spec = {"sources": {"src/s0.txt": "s0\n", "src/s1.txt": "s1\n"}, "env": {},
            "steps": {"T": {"kind": "do", "salt": "", "inp": ["src/s1.txt"], "out": ["out/t.txt"]},
                      "U": {"kind": "do", "salt": "", "inp": ["src/s0.txt"], "out": ["out/u.txt"]}},
            "plans": {".": [["pattern", "src/*.txt"], ["step", "T"], ["step", "U"]]}, "order": ["T", "U"]}
    p1 = copy.deepcopy(spec)
    del p1["sources"]["src/s1.txt"]
    # T is declared differently as well, so it is created again and with it the node of its missing
    # input, which then has no role at all
    p1["steps"]["T"]["inp"] = ["src/s1.txt", "src/s0.txt"]
    p2 = copy.deepcopy(p1)
    p2["sources"]["src/s1.txt"] = "s1\n"
    return spec, [{"edits": [["delete_match", "src/s1.txt"]], "spec": p1},
                  {"edits": [["restore_match", "src/s1.txt"]], "spec": p2}]


PHASE_SCENARIOS = {
    "failed_plan_then_edit": lambda: c01.SEED_SCENARIOS["failed_plan_then_edit"](),
    "failed_plan_then_new_match": lambda: c01.SEED_SCENARIOS["failed_plan_then_new_match"](),
    "match_deleted_then_restored": scenario_match_deleted_then_restored,
}


def gen_cases(tier, seed):
    n = 16 if tier == "quick" else 300
    cases = [{"id": f"c14-{seed}-{i}", "seed": seed * 6007 + i, "rounds": 4 if tier == "quick" else 6}
             for i in range(n)]
    cases += [{"id": f"c14-deep-{seed}-{i}", "seed": seed * 6007 + 90000 + i, "rounds": 4, "scenario": "deep_glob"}
              for i in range(24 if tier == "quick" else 80)]
    # one flat directory of glob matches that is moved out of reach of the pattern
    cases += [{"id": f"c14-flat-{seed}-{i}", "seed": seed * 6007 + 95000 + i, "rounds": 3, "scenario": "flat_glob"}
              for i in range(10 if tier == "quick" else 60)]
    # plan edits in watch mode: a plan that fails, then its repair together with a change of something
    # that only the (meanwhile detached) sub-plan declared
    cases += [{"id": f"c14-phases-{seed}-{k}-{j}", "seed": seed * 6007 + 97000 + 10 * i + j, "rounds": 2, "scenario": k}
              for i, k in enumerate(sorted(PHASE_SCENARIOS))
              for j in range(2 if tier == "quick" else 8)]
    return cases


def tree(root="."):
    out = c01.tree_outputs(root)
    return {p: v for p, v in out.items() if not os.path.basename(p).startswith(("zz-sentinel", ".crash-events"))}


def list_dirs(root="."):
    dirs = []
    for dp, dns, _f in os.walk(root):
        dns[:] = [d for d in dns if d != ".stepup"]
        rel = os.path.relpath(dp, root)
        if rel != ".":
            dirs.append(rel)
    return sorted(dirs)


def apply_event(rng, kind, user_files, memory):
    """Apply one file-system event; returns a description or None."""
    files = tree(".")
    sources = sorted(p for p in files if p in user_files and not p.endswith("plan.py") and not p.startswith("progs/"))
    outputs = sorted(p for p in files if p not in user_files)
    dirs = [d for d in list_dirs(".") if not d.startswith("progs")]
    srcdirs = sorted({os.path.dirname(p) for p in sources if os.path.dirname(p)})
    if kind == "modify_source" and sources:
        p = rng.choice(sources)
        with open(p) as fh:
            old = fh.read()
        H.write_file(p, old + f"edit {rng.randrange(10**6)}\n")
        return f"modify {p}"
    if kind == "touch_source" and sources:
        p = rng.choice(sources)
        with open(p) as fh:
            old = fh.read()
        H.write_file(p, old)
        return f"rewrite {p} with the same content"
    if kind == "create_match" and srcdirs:
        d = rng.choice(srcdirs)
        siblings = [p for p in sources if os.path.dirname(p) == d]
        ext = os.path.splitext(rng.choice(siblings))[1] if siblings else ".txt"
        stem = os.path.splitext(os.path.basename(rng.choice(siblings)))[0] if siblings else "n"
        p = os.path.join(d, f"{stem}x{rng.randrange(100)}{ext}")
        H.write_file(p, f"new file {p}\n")
        user_files[p] = True
        return f"create {p}"
    if kind == "delete_match" and sources:
        cands = [p for p in sources if "x" in os.path.basename(p) or p.startswith(("in/", "data/"))] or sources
        p = rng.choice(cands)
        memory.setdefault("deleted", {})[p] = open(p).read()
        os.unlink(p)
        return f"delete {p}"
    if kind == "delete_source" and sources:
        p = rng.choice(sources)
        memory.setdefault("deleted", {})[p] = open(p).read()
        os.unlink(p)
        return f"delete {p}"
    if kind == "restore_source" and memory.get("deleted"):
        p = rng.choice(sorted(memory["deleted"]))
        os.makedirs(os.path.dirname(p) or ".", exist_ok=True)
        H.write_file(p, memory["deleted"].pop(p))
        return f"restore {p}"
    if kind == "modify_output" and outputs:
        p = rng.choice(outputs)
        H.write_file(p, f"user content {rng.randrange(10**6)}\n")
        return f"overwrite output {p}"
    if kind == "delete_output" and outputs:
        p = rng.choice(outputs)
        os.unlink(p)
        return f"delete output {p}"
    if kind == "remove_dir" and srcdirs:
        d = rng.choice(srcdirs)
        saved = {}
        for p in list(files):
            if p.startswith(d + os.sep):
                saved[p] = open(p).read()
        memory.setdefault("removed_dirs", {})[d] = saved
        for p, text in saved.items():
            memory.setdefault("deleted", {})[p] = text
        shutil.rmtree(d)
        return f"remove directory {d}"
    if kind == "new_subdir" and srcdirs:
        d = rng.choice(srcdirs)
        siblings = [p for p in sources if os.path.dirname(p) == d]
        ext = os.path.splitext(rng.choice(siblings))[1] if siblings else ".txt"
        stem = os.path.splitext(os.path.basename(rng.choice(siblings)))[0] if siblings else "n"
        sub = os.path.join(d, f"sub{rng.randrange(10)}")
        os.makedirs(sub, exist_ok=True)
        p = os.path.join(sub, f"{stem}y{rng.randrange(100)}{ext}")
        H.write_file(p, f"new file in new directory {p}\n")
        user_files[p] = True
        memory["newdir"] = True
        return f"create directory {sub} with {p}"
    if kind == "new_empty_dir" and srcdirs:
        d = rng.choice(srcdirs)
        parent = os.path.dirname(d)
        if not parent:
            return None
        sub = os.path.join(parent, f"e{rng.randrange(10)}")
        if os.path.exists(sub):
            return None
        os.makedirs(sub)
        memory["newdir"] = True
        return f"create empty directory {sub}"
    if kind == "new_sibling_dir" and srcdirs:
        d = rng.choice(srcdirs)
        parent = os.path.dirname(d)
        siblings = [p for p in sources if os.path.dirname(p) == d]
        if not parent or not siblings:
            return None
        ext = os.path.splitext(siblings[0])[1]
        sub = os.path.join(parent, f"n{rng.randrange(10)}")
        os.makedirs(sub, exist_ok=True)
        p = os.path.join(sub, f"g{rng.randrange(100)}{ext}")
        H.write_file(p, f"new file in new sibling directory {p}\n")
        user_files[p] = True
        memory["newdir"] = True
        return f"create sibling directory {sub} with {p}"
    if kind == "move_dir" and srcdirs:
        d = rng.choice(srcdirs)
        tmp = d + "-moved"
        if os.path.exists(tmp):
            return None
        os.rename(d, tmp)
        if rng.random() < 0.6:
            os.rename(tmp, d)
            return f"move {d} away and back"
        for p in list(files):
            if p.startswith(d + os.sep):
                user_files[tmp + p[len(d):]] = True
        memory["newdir"] = True
        return f"move {d} to {tmp}"
    if kind == "move_dir_then_write" and srcdirs:
        # inotify reports the write after the move, under the former name of the directory
        d = rng.choice(srcdirs)
        tmp = d + "-moved"
        inside = [p for p in sources if p.startswith(d + os.sep)]
        if os.path.exists(tmp) or not inside:
            return None
        os.rename(d, tmp)
        for p in list(files):
            if p.startswith(d + os.sep):
                user_files[tmp + p[len(d):]] = True
        q = tmp + rng.choice(inside)[len(d):]
        with open(q) as fh:
            old = fh.read()
        H.write_file(q, old if rng.random() < 0.5 else old + "edited after the move\n")
        memory["newdir"] = True
        return f"move {d} to {tmp} and rewrite {q}"
    if kind == "create_delete" and srcdirs:
        d = rng.choice(srcdirs)
        p = os.path.join(d, f"tmp{rng.randrange(100)}.txt")
        H.write_file(p, "short lived\n")
        os.unlink(p)
        return f"create and delete {p}"
    if kind == "modify_restore" and sources:
        p = rng.choice(sources)
        with open(p) as fh:
            old = fh.read()
        H.write_file(p, old + "temporary\n")
        H.write_file(p, old)
        return f"modify {p} and write the old content back"
    return None


class DuringBuild(H.Controller):
    """Applies queued modifications of static files while a build phase runs."""

    def __init__(self, policy, seed):
        super().__init__(policy, seed)
        self.queue = []
        self.applied = []

    async def gate(self, info):
        if self.queue and info.get("a") not in (None,):
            path = self.queue.pop(0)
            if os.path.isfile(path):
                with open(path) as fh:
                    old = fh.read()
                H.write_file(path, old + "edited while the build was running\n")
                self.applied.append(path)
        await super().gate(info)


def run_case(case):
    rng = random.Random(case["seed"])
    install_watch_hook()
    counters = dict.fromkeys(["evaluations", "build_errors", "restart_errors", "barrier_timeouts",
                              "rounds_without_events", "rounds_after_divergence",
                              "rounds_where_only_detached_memory_differs", "volatile_contents_differ"] + REQUIRED_COUNTERS, 0)
    violations = []
    classes = set()
    witness = {"case": case["id"]}

    def vio(mechanism, message):
        if sum(1 for v in violations if v["mechanism"] == mechanism) < 2:
            violations.append({"mechanism": mechanism, "message": f"{case['id']}: {message}",
                               "witness": json.loads(json.dumps(witness, default=str))})

    if case.get("scenario") == "deep_glob":
        tmpl = {"cmd": "do " + json.dumps([{"a": "read", "path": "{m}"}, {"a": "write", "path": "out/g_{b}.txt"}]),
                "inp": ["{m}"], "out": ["out/g_{b}.txt"]}
        spec = {"sources": {"in/a/g0.src": "g0\n", "in/b/g1.src": "g1\n", "src/s0.txt": "s\n"}, "env": {},
                "steps": {"t0": {"kind": "do", "salt": "", "inp": ["src/s0.txt"], "out": ["out/t0.txt"]}},
                "plans": {".": [["static", ["src/s0.txt"]], ["pattern", "in/*/*.src"], ["glob", "in/*/*.src", tmpl],
                                ["glob", "in/*/"], ["step", "t0"]]},
                "order": ["t0"]}
    elif case.get("scenario") in PHASE_SCENARIOS:
        spec, phase_list = PHASE_SCENARIOS[case["scenario"]]()
    elif case.get("scenario") == "flat_glob":
        tmpl = {"cmd": "do " + json.dumps([{"a": "read", "path": "{m}"}, {"a": "write", "path": "out/g_{b}.txt"}]),
                "inp": ["{m}"], "out": ["out/g_{b}.txt"]}
        spec = {"sources": {"in/g0.src": "g0\n", "in/g1.src": "g1\n", "src/s0.txt": "s\n"}, "env": {},
                "steps": {"t0": {"kind": "do", "salt": "", "inp": ["src/s0.txt"], "out": ["out/t0.txt"]}},
                "plans": {".": [["static", ["src/s0.txt"]], ["pattern", "in/*.src"], ["glob", "in/*.src", tmpl],
                                ["step", "t0"]]},
                "order": ["t0"]}
    else:
        spec = gen.gen_project(rng)
    witness["spec"] = spec
    env = dict(spec.get("env", {}))
    os.makedirs("watch")
    cwd = os.getcwd()
    os.chdir("watch")
    rounds = []
    try:
        state = {"files": gen.render(spec)}
        user_files = dict.fromkeys(gen.user_files(spec), True)
        cfg = {"njob": rng.choice([1, 2, 3]), "resources": "cpu:2,gpu:2", "watch": True}
        ctl = DuringBuild(rng.choice(["free", "jitter"]), rng.randrange(1 << 30))
        memory = {}
        log = []
        witness["log"] = log

        async def graph_of(handler):
            async with handler.db:
                return H.canonical_graph(handler.workflow.format_str(), attached_only=False)

        async def driver(build):
            build.watch_seen = []
            while build.handler is None:
                await asyncio.sleep(0.001)
            handler = build.handler
            try:
                await handler.wait_for_idle()
                for k in range(case["rounds"]):
                    # wait for the watch phase
                    for _ in range(5000):
                        if handler.watcher.busy_watching.is_set():
                            break
                        await asyncio.sleep(0.002)
                    else:
                        break
                    events = []
                    memory["newdir"] = False
                    if case.get("scenario") in PHASE_SCENARIOS:
                        # the user's edits of this phase (plans included), all at once
                        state["files"] = gen.render(phase_list[k]["spec"], previous=state["files"])
                        user_files.update(dict.fromkeys(gen.user_files(phase_list[k]["spec"]), True))
                        events.append(["edit_phase", json.dumps(phase_list[k]["edits"])])
                    for _ in range(0 if case.get("scenario") in PHASE_SCENARIOS else rng.choice([1, 1, 2, 3])):
                        kind = rng.choice(EVENT_KINDS)
                        if case.get("scenario") == "deep_glob" and rng.random() < 0.4:
                            kind = rng.choice(["new_empty_dir", "new_sibling_dir", "remove_dir", "move_dir",
                                               "move_dir_then_write"])
                        if case.get("scenario") == "flat_glob" and rng.random() < 0.6:
                            kind = rng.choice(["move_dir_then_write", "move_dir_then_write", "move_dir", "new_subdir",
                                               "remove_dir"])
                        desc = apply_event(rng, kind, user_files, memory)
                        if desc:
                            events.append([kind, desc])
                    # barrier
                    seen0 = len(build.watch_seen)
                    sentinel = f"zz-sentinel-{k}"
                    with open(sentinel, "w") as fh:
                        fh.write("x")
                    os.unlink(sentinel)
                    ok = False
                    for _ in range(3000):
                        if any(c == "DELETED" and os.path.basename(p) == sentinel for c, p in build.watch_seen[seen0:]):
                            ok = True
                            break
                        await asyncio.sleep(0.001)
                    if not ok:
                        counters["barrier_timeouts"] += 1
                        break
                    # let the events that the watcher generated itself (new directory scans) drain
                    for _ in range(3):
                        await asyncio.sleep(0.002)
                    counters["events_seen_by_watcher"] += len(build.watch_seen) - seen0
                    copy = os.path.join("..", f"restart{k}")
                    shutil.copytree(".", copy, symlinks=True)
                    # some static files are edited while the rebuild runs (next round sees them)
                    during = []
                    if rng.random() < 0.3 and not case.get("scenario") in PHASE_SCENARIOS:
                        srcs = sorted(p for p in tree(".") if p in user_files and p.startswith(("src/", "data/", "in/")))
                        if srcs:
                            ctl.queue.append(rng.choice(srcs))
                    njobs_before = sum(1 for e in build.events if e["type"] == "cmd_start")
                    await handler.start_build_phase()
                    await handler.wait_for_idle()
                    for _ in range(5000):
                        if handler.watcher.busy_watching.is_set():
                            break
                        await asyncio.sleep(0.002)
                    during = list(ctl.applied)
                    ctl.applied.clear()
                    counters["events_during_build"] += len(during)
                    rc = handler.builder.returncode
                    graph = await graph_of(handler)
                    files = tree(".")
                    ran = sum(1 for e in build.events if e["type"] == "cmd_start") - njobs_before
                    rounds.append({"k": k, "events": events, "rc": rc.value, "graph": graph, "files": files,
                                   "copy": f"restart{k}", "ran": ran, "newdir": memory.get("newdir"),
                                   "during": during})
                    log.append({"round": k, "events": events, "rc": str(rc), "during_build": during})
                    counters["events_applied"] += len(events)
                    if not events:
                        counters["rounds_without_events"] += 1
                    if during:
                        # the files edited during this rebuild differ from the copy: the next
                        # round's copy carries them; this round's restart must not be compared
                        rounds[-1]["skip"] = True
            finally:
                await handler.shutdown()

        b = H.run_build(cfg, ctl=ctl, driver=driver, env=env, timeout=240)
        counters["sessions"] += 1
        if b.error is not None:
            counters["build_errors"] += 1
            witness["error"] = [b.error[0], str(b.error[1])[-800:]]
            last = str(b.error[1]).strip().splitlines()[-1] if str(b.error[1]).strip() else ""
            mech = "watching director raised"
            if "state=UNDECLARED" in last and "cause=EXTERNAL" in last:
                mech = UNDECLARED_MECH
            vio(mech, f"after rounds {[[e[1] for e in l['events']] for l in log][-2:]} and pending events: {last[:300]}")
        os.chdir(cwd)
        # -- restarts --------------------------------------------------------------------------------
        diverged = False
        for r in rounds:
            d = r["copy"]
            if r.get("skip") or not os.path.isdir(d):
                continue
            if diverged:
                # the watching director already differs from a restarted one: what follows is
                # a consequence, not a new observation
                counters["rounds_after_divergence"] += 1
                continue
            os.chdir(d)
            try:
                rb = H.run_build({"njob": cfg["njob"], "resources": cfg["resources"]},
                                 ctl=H.Controller("free", 1), env=env, timeout=90)
                if rb.error is not None:
                    counters["restart_errors"] += 1
                    continue
                counters["rounds_compared"] += 1
                counters["evaluations"] += 1
                if r["ran"]:
                    counters["rounds_with_rebuild_work"] += 1
                what = f"round {r['k']} after {[e[1] for e in r['events']]}"
                kinds = tuple(e[0] for e in r["events"])
                classes.add(repr((kinds, r["rc"])))
                newdir = any(e[0] in ("new_subdir", "new_sibling_dir") or (e[0] == "move_dir" and " to " in e[1]) for e in r["events"])
                mech_suffix = None   # the new-directory defects are repaired (6d9c0ac): no special label
                if rb.returncode.value != r["rc"]:
                    vio(mech_suffix or "return code of the watch-mode rebuild differs from a restart",
                        f"{what}: watch {r['rc']} restart {rb.returncode.value}")
                    diverged = True
                    continue
                files = tree(".")
                if files != r["files"]:
                    diff = sorted(p for p in set(files) | set(r["files"]) if files.get(p) != r["files"].get(p))
                    # The content of a volatile output is not part of the result ("can change when a
                    # step is repeated with the same inputs"): whether it exists is.
                    import sqlite3
                    con = sqlite3.connect("file:.stepup/graph.db?mode=ro", uri=True)
                    try:
                        volatile = {row[0] for row in con.execute(
                            "SELECT node.label FROM node JOIN file ON file.node = node.i WHERE file.state = 18")}
                    finally:
                        con.close()
                    only_content = [p for p in diff if p in volatile and p in files and p in r["files"]]
                    if only_content:
                        counters["volatile_contents_differ"] += len(only_content)
                        diff = [p for p in diff if p not in only_content]
                if files != r["files"] and diff:
                    vio(mech_suffix or "files after the watch-mode rebuild differ from a restart",
                        f"{what}: {diff[:5]}")
                    diverged = True
                    continue
                graph, _g = H.graph_text(attached_only=False)
                if graph != r["graph"]:
                    # detached nodes are memories of former lives: only the attached part of the
                    # graph is compared (as in C01); a difference there alone is counted
                    ga = H.canonical_graph(r["graph"], attached_only=True)
                    gb = H.canonical_graph(graph, attached_only=True)
                    if ga == gb:
                        counters["rounds_where_only_detached_memory_differs"] += 1
                    else:
                        mech = classify_graph_difference(ga, gb) or \
                            "graph after the watch-mode rebuild differs from a restart"
                        sa, sb = set(ga.split("\n\n")), set(gb.split("\n\n"))
                        vio(mech, f"{what}: only watch {[x[:160] for x in sorted(sa - sb)[:2]]} only restart "
                                  f"{[x[:160] for x in sorted(sb - sa)[:2]]}")
                        diverged = True
            finally:
                os.chdir(cwd)
    finally:
        os.chdir(cwd)
        shutil.rmtree("watch", ignore_errors=True)
        for d in os.listdir("."):
            if d.startswith("restart"):
                shutil.rmtree(d, ignore_errors=True)
    return {"status": "violation" if violations else "held", "violations": violations,
            "counters": counters, "nontrivial": sorted(classes), "nontrivial_many": True,
            "sample": {"case": case["id"], "classes": sorted(classes)[:3]}}
