"""C18: "under this directory" selects exactly the paths under it.

Executions: every selection site is driven through its real entry point on a real SQLite
database that was filled through the real declaration API of `Workflow`.
Oracle: byte-wise `str.startswith` on the same labels, in Python.

Sites:
  prefix_clause        raw predicate on a table of labels
  dir_range            `label >= d AND label < dir_range_upper(d)` on a table of labels
  owning_tree          Workflow._find_owning_static_tree
  register_tree        Workflow.register_static_tree: parent scan, child scan, file scan, handover
  relevant_under       Workflow.relevant_paths_under (file nodes and recorded glob matches)
  output_under         Workflow.has_regular_output_under
  target_dirs          Workflow.reconcile_targets (RECONCILE_TARGET_DIRS) and the directory arm of
                       UPDATE_CHECK_AFTER, observed through `_check_after` and `_implied_need`
  justified            Workflow._is_justified_without_node
  clean                clean.search_matching_paths
"""

from __future__ import annotations

import asyncio
import hashlib
import itertools
import random

PROPERTY = "C18"
LEVEL = "exploration"
RULE = (
    "distinct (site, directory, label set) evaluations in which at least one stored label shares "
    "a case-folded or byte-wise name prefix with the directory without being under it, or is "
    "under it (so that both inclusion and exclusion are exercised)"
)
TIMEOUT = 600
SITES = ["prefix_clause", "dir_range", "owning_tree", "register_tree", "relevant_under",
         "output_under", "target_dirs", "justified", "clean"]
REQUIRED_COUNTERS = [f"site_{s}" for s in SITES]
ASSUMPTIONS = [
    "labels are normalised relative paths as api.py produces them (no '.', '..' or empty components)",
    "SQLite compares TEXT byte-wise (BINARY collation), as the schema leaves the default",
]

CASE_MECH = "prefix_clause (SQL LIKE) matches a label that differs from the directory only in ASCII letter case"

ALPHABET = ["a", "A", "b", "B", "%", "_", "\\", ".", "0", "-", " ", "~", "é", "É", "€", "😀",
            "e\u0301", "!", "z"]
RAW_EXTRA = ["[", "]", "*", "?", "^"]


def gen_cases(tier, seed):
    ncase, nuniv = (32, 12) if tier == "quick" else (256, 40)
    cases = [{"id": f"c18-{seed}-{i}", "seed": seed * 104729 + i, "nuniv": nuniv, "mode": "random"}
             for i in range(ncase)]
    # Exhaustive short strings over a six-character alphabet (raw predicates only).
    cases.append({"id": f"c18-{seed}-exh", "seed": seed, "nuniv": 0, "mode": "exhaustive",
                  "maxlen": 2 if tier == "quick" else 3})
    return cases


def rand_component(rng):
    n = rng.choice([1, 1, 2, 2, 3])
    alphabet = ALPHABET + RAW_EXTRA if getattr(rng, "raw_extra", False) else ALPHABET
    comp = "".join(rng.choice(alphabet) for _ in range(n))
    if comp in (".", ".."):
        comp = "a" + comp
    if comp.strip(" ") == "":
        comp = "a"
    return comp


def variants(rng, comp):
    """Names that collide with `comp` under some wrong notion of equality."""
    out = {comp.swapcase(), comp.lower(), comp.upper(), comp + "0", comp + ".", comp + "-",
           comp + " ", comp + "a", comp[:-1] or "a"}
    for wild in ("_", "%"):
        if wild in comp:
            out.add(comp.replace(wild, "X"))
            out.add(comp.replace(wild, "XY"))
    if len(comp) > 1:
        out.add(comp[0] + "_" + comp[2:] if len(comp) > 2 else comp[0] + "_")
    out = {c for c in out if c not in (".", "..", "") and "/" not in c and c.strip(" ") != ""}
    return sorted(out)


def gen_universe(rng):
    """A directory d and labels designed to be near it."""
    ncomp = rng.choice([1, 1, 2, 3])
    comps = [rand_component(rng) for _ in range(ncomp)]
    d = "/".join(comps) + "/"
    labels = set()
    # under d
    for _ in range(rng.choice([1, 2, 3])):
        tail = "/".join(rand_component(rng) for _ in range(rng.choice([1, 1, 2])))
        labels.add(d + tail)
    # siblings that share a name prefix or differ in case or in wildcard characters
    for i in range(ncomp):
        for v in rng.sample(variants(rng, comps[i]), min(3, len(variants(rng, comps[i])))):
            sib = comps[:i] + [v] + comps[i + 1:]
            tail = rand_component(rng)
            labels.add("/".join(sib) + "/" + tail)
            if rng.random() < 0.3:
                labels.add("/".join(sib))
    # parents and unrelated
    if ncomp > 1:
        labels.add("/".join(comps[:-1]) + "/" + rand_component(rng))
    labels.add(rand_component(rng))
    labels.add(rand_component(rng) + "/" + rand_component(rng))
    labels.discard(d.rstrip("/"))
    return d, sorted(labels)


def is_file_label(label):
    return not label.endswith("/")


def fake_hash(FileHash, path):
    digest = hashlib.sha256(path.encode()).digest()
    return FileHash(digest, 0o100644, 1000.5, len(path), 99)


def interesting(d, labels):
    """Both an included label and a near miss exist."""
    inc = any(l.startswith(d) for l in labels)
    near = any((not l.startswith(d)) and (l.casefold().startswith(d.casefold()[:-1])
                                           or l.startswith(d[:-1])) for l in labels)
    return inc and near


class Ctx:
    def __init__(self):
        self.counters = dict.fromkeys(["evaluations"] + REQUIRED_COUNTERS, 0)
        self.violations = []
        self.nontrivial = []

    def vio(self, site, d, labels, got, expected, extra=""):
        got, expected = set(got), set(expected)
        wrong = got ^ expected
        case_only = bool(wrong) and all(
            (l not in expected) and l.casefold().startswith(d.casefold()) or
            # rejected/selected because of a case-folded prefix
            False for l in wrong) if isinstance(next(iter(wrong), ""), str) else False
        mech = f"{site}: selection differs from the byte-wise prefix test"
        if case_only and site in ("prefix_clause", "register_tree", "relevant_under", "clean"):
            # Every wrongly selected label has d as an ASCII-case-insensitive prefix
            # (SQLite's LIKE folds ASCII letters only).
            def ascii_fold(s):
                return "".join(c.lower() if "A" <= c <= "Z" else c for c in s)
            if all(ascii_fold(l).startswith(ascii_fold(d)) and not l.startswith(d) and l in got for l in wrong):
                mech = CASE_MECH
        if sum(1 for v in self.violations if v["mechanism"] == mech) < 3:
            self.violations.append({
                "mechanism": mech,
                "message": f"[{site}] directory {d!r}: selected-only={sorted(got - expected)} "
                           f"expected-only={sorted(expected - got)} {extra}",
                "witness": {"site": site, "directory": d, "labels": sorted(labels)},
            })

    def count(self, site, d, labels):
        self.counters[f"site_{site}"] += 1
        self.counters["evaluations"] += 1
        if interesting(d, labels) and len(self.nontrivial) < 800:
            key = hashlib.sha1(repr((site, d, sorted(labels))).encode()).hexdigest()[:10]
            self.nontrivial.append(key)


# ---------------------------------------------------------------------------------------------
# Raw predicates
# ---------------------------------------------------------------------------------------------


def raw_sites(ctx, d, labels):
    from stepup.core.path import dir_range_upper
    from stepup.core.sqlite3 import connect, prefix_clause

    con = connect(":memory:")
    try:
        con.execute("CREATE TABLE node (label TEXT)")
        con.executemany("INSERT INTO node VALUES (?)", [(l,) for l in labels])
        clause, pattern = prefix_clause("label", d)
        got = {r[0] for r in con.execute(f"SELECT label FROM node WHERE {clause}", (pattern,))}
        expected = {l for l in labels if l.startswith(d)}
        ctx.count("prefix_clause", d, labels)
        if got != expected:
            ctx.vio("prefix_clause", d, labels, got, expected)
        got = {r[0] for r in con.execute(
            "SELECT label FROM node WHERE label >= ? AND label < ?", (d, dir_range_upper(d)))}
        ctx.count("dir_range", d, labels)
        if got != expected:
            ctx.vio("dir_range", d, labels, got, expected)
    finally:
        con.close()


# ---------------------------------------------------------------------------------------------
# Workflow sites
# ---------------------------------------------------------------------------------------------


async def new_workflow(**kw):
    from stepup.core.sqlite3 import DBSession
    from stepup.core.workflow import Workflow

    stack = DBSession.open(":memory:")
    db = stack.__enter__()
    wf = Workflow(db, dir_queue=asyncio.Queue(), **kw)
    await wf.initialize()
    return wf, stack


async def close_workflow(wf, stack):
    stack.__exit__(None, None, None)


def boot(wf):
    from stepup.core.enums import Need

    wf.define_step(wf.root, "./plan.py", need=Need.PLAN, _safe=True)
    from stepup.core.step import Step
    return wf.find_attached(Step, "./plan.py")


def confirm(wf, to_check):
    from stepup.core.enums import HashUpdateCause
    from stepup.core.hash import FileHash

    checked = {p: fake_hash(FileHash, p) for p in to_check}
    wf.update_file_hashes(checked, cause=HashUpdateCause.CONFIRMED)


async def workflow_sites(ctx, rng, d, labels):
    from stepup.core import clean
    from stepup.core.enums import FileState, Need
    from stepup.core.exceptions import GraphError
    from stepup.core.file import File
    from stepup.core.nglob import NamedGlob
    from stepup.core.step import Step
    from path import Path

    files = [l for l in labels if is_file_label(l) and not l.startswith(".stepup/")
             and l != ".stepup"]
    if not files:
        return
    # Split the labels into roles.
    statics, outputs = [], []
    for l in files:
        (statics if rng.random() < 0.5 else outputs).append(l)

    # ---- A workflow with static files, outputs and glob matches (no trees yet).
    wf, stack = await new_workflow()
    try:
        async with wf.db:
            plan = boot(wf)
            confirm(wf, wf.declare_static_files(plan, statics))
            steps = {}
            for k, o in enumerate(outputs):
                wf.define_step(plan, f"cmd{k}", out_paths=[o],
                               need=Need.DEFAULT if rng.random() < 0.7 else Need.OPTIONAL)
                steps[o] = wf.find_attached(Step, f"cmd{k}")
            # Make some outputs BUILT.
            built = [o for o in outputs if rng.random() < 0.6]
            for o in built:
                wf.db.execute("UPDATE file SET state = ?, hash = ? WHERE node = ?",
                              (FileState.BUILT.value, '{"digest":"00","mode":1,"mtime":1.0,"size":1,"inode":1}',
                               wf.find_attached(File, o).i))
            # A registered pattern with recorded matches that have no node.
            extra_matches = [l + ".m" for l in rng.sample(files, min(2, len(files)))]
            ng = NamedGlob("**/*.m", {}, {(): {Path(p) for p in extra_matches}})
            wf.register_nglob(plan, ng)

            # relevant_under
            for during_build in (False, True):
                got = set(wf.relevant_paths_under(d, during_build=during_build))
                relevant = set(statics) | set(extra_matches)
                if not during_build:
                    relevant |= set(built)
                expected = {l for l in relevant if l.startswith(d)}
                ctx.count("relevant_under", d, labels)
                if got != expected:
                    ctx.vio("relevant_under", d, labels, got, expected,
                            extra=f"during_build={during_build}")
                # the same without the trailing separator
                got2 = set(wf.relevant_paths_under(d[:-1], during_build=during_build))
                if got2 != expected:
                    ctx.vio("relevant_under", d, labels, got2, expected, extra="(no trailing slash)")

            # output_under
            got = wf.has_regular_output_under(d)
            expected = any(o.startswith(d) for o in outputs)
            ctx.count("output_under", d, labels)
            if got != expected:
                ctx.vio("output_under", d, labels, {"True"} if got else set(),
                        {"True"} if expected else set())

            # justified (B arm: directory contains a static file)
            got = wf._is_justified_without_node(d, [])
            expected = any(s.startswith(d) for s in statics)
            ctx.count("justified", d, labels)
            if got != expected:
                ctx.vio("justified", d, labels, {"True"} if got else set(),
                        {"True"} if expected else set(), extra="(contains static file)")

        # clean.search_matching_paths on the same database (read-only queries, own connection use)
        con = wf.db._con
        got = clean.search_matching_paths(con, {Path(d[:-1])})
        all_file_labels = set(statics) | set(outputs)
        expected = {l for l in all_file_labels if l.startswith(d) or l == d[:-1]}
        ctx.count("clean", d, labels)
        if set(got) != expected:
            ctx.vio("clean", d, labels, got, expected)

        # remembered_under: the same selection for detached nodes (what the watcher keeps up to date
        # for nodes that may return).  Last, because it detaches everything the plan declared.
        if hasattr(wf, "remembered_paths_under"):
            async with wf.db:
                plan.detach()
                for during_build in (False, True):
                    got = set(wf.remembered_paths_under(d, during_build=during_build))
                    relevant = set(statics) | set(extra_matches)
                    if not during_build:
                        relevant |= set(built)
                    expected = {l for l in relevant if l.startswith(d)}
                    ctx.count("relevant_under", d, labels)
                    if got != expected:
                        ctx.vio("relevant_under", d, labels, got, expected,
                                extra=f"detached nodes, during_build={during_build}")
                    # the watcher reports a removed directory as a bare path: same selection
                    got2 = set(wf.remembered_paths_under(d[:-1], during_build=during_build))
                    ctx.count("relevant_under", d[:-1], labels)
                    if got2 != expected:
                        ctx.vio("relevant_under", d[:-1], labels, got2, expected,
                                extra=f"detached nodes, directory without the final slash, during_build={during_build}")
                    left = set(wf.relevant_paths_under(d, during_build=during_build))
                    if left:
                        ctx.vio("relevant_under", d, labels, left, set(), extra="attached selection after detaching")
    finally:
        await close_workflow(wf, stack)

    # ---- register_static_tree against existing declarations, one scenario per workflow.
    scenarios = []
    for l in rng.sample(files, min(4, len(files))):
        scenarios.append(("output", l))
        scenarios.append(("static_same", l))
        scenarios.append(("static_other", l))
    dirs = sorted({l.rsplit("/", 1)[0] + "/" for l in labels if "/" in l.rstrip("/")})
    for t in rng.sample(dirs, min(4, len(dirs))):
        scenarios.append(("tree", t))
    for kind, other in scenarios:
        wf, stack = await new_workflow()
        try:
            async with wf.db:
                plan = boot(wf)
                wf.define_step(plan, "other")
                other_step = wf.find_attached(Step, "other")
                if kind == "output":
                    wf.define_step(plan, "prod", out_paths=[other])
                elif kind == "static_same":
                    confirm(wf, wf.declare_static_files(plan, [other]))
                elif kind == "static_other":
                    confirm(wf, wf.declare_static_files(other_step, [other]))
                elif kind == "tree":
                    if other == d:
                        continue
                    wf.register_static_tree(other_step, other)
                try:
                    wf.register_static_tree(plan, d)
                    accepted = True
                except GraphError:
                    accepted = False
                if kind == "tree":
                    expected_accept = not (other.startswith(d) or d.startswith(other))
                elif kind == "static_same":
                    expected_accept = True
                else:
                    expected_accept = not other.startswith(d)
                ctx.count("register_tree", d, [other])
                if accepted != expected_accept:
                    ctx.vio("register_tree", d, [other],
                            {other} if not accepted else set(),
                            {other} if not expected_accept else set(),
                            extra=f"scenario={kind} accepted={accepted}")
                elif kind == "static_same" and accepted:
                    # handover exactly when the file is under the tree
                    file = wf.find_attached(File, other)
                    creator = file.creator()
                    handed = creator is not None and creator.kind() == "st"
                    if handed != other.startswith(d):
                        ctx.vio("register_tree", d, [other], {other} if handed else set(),
                                {other} if other.startswith(d) else set(), extra="(handover)")
        finally:
            await close_workflow(wf, stack)

    # ---- owning_tree and justified (A arm) with a prefix-free set of trees.
    trees = []
    for t in [d] + dirs:
        if not any(t.startswith(u) or u.startswith(t) for u in trees):
            trees.append(t)
    wf, stack = await new_workflow()
    try:
        async with wf.db:
            plan = boot(wf)
            registered = []
            for t in trees:
                try:
                    wf.register_static_tree(plan, t)
                    registered.append(t)
                except GraphError as exc:
                    ctx.vio("register_tree", t, registered, {t}, set(),
                            extra=f"prefix-free tree rejected: {exc}")
            for l in files:
                try:
                    owner = wf._find_owning_static_tree(l)
                    got = {owner.label} if owner is not None else set()
                except GraphError as exc:
                    got = {f"error: {exc}"}
                expected = {t for t in registered if (l + "/").startswith(t)}
                ctx.count("owning_tree", d, registered + [l])
                if got != expected:
                    ctx.vio("owning_tree", l, registered, got, expected)
                got = wf._is_justified_without_node(l, registered)
                ctx.count("justified", d, registered + [l])
                if got != bool(expected):
                    ctx.vio("justified", l, registered, {"True"} if got else set(),
                            {"True"} if expected else set(), extra="(inside a tree)")
            # B arm: a directory that contains a tree
            for probe in sorted({d} | set(dirs)):
                got = wf._is_justified_without_node(probe, registered)
                inside = any(probe.startswith(t) for t in registered)
                contains = any(t.startswith(probe) for t in registered)
                ctx.count("justified", probe, registered)
                if got != (inside or contains):
                    ctx.vio("justified", probe, registered, {"True"} if got else set(),
                            {"True"} if (inside or contains) else set(), extra="(contains a tree)")
    finally:
        await close_workflow(wf, stack)

    # ---- directory targets
    from stepup.core.scheduler import Scheduler
    wf, stack = await new_workflow(target_dirs=[Path(d)])
    try:
        sched = Scheduler(wf, db=wf.db)
        async with wf.db:
            plan = boot(wf)
            needs = {}
            for k, o in enumerate(files):
                need = Need.DEFAULT if rng.random() < 0.75 else Need.OPTIONAL
                vol = rng.random() < 0.15
                if vol:
                    wf.define_step(plan, f"cmd{k}", vol_paths=[o], need=need)
                else:
                    wf.define_step(plan, f"cmd{k}", out_paths=[o], need=need)
                needs[o] = (need, vol, wf.find_attached(Step, f"cmd{k}").i)
            # Settle the flags set by the definitions, then let reconcile flag again.
            wf.db.execute("UPDATE step SET _check_after = 0")
        await sched.initialize(None)
        async with wf.db:
            wf.reconcile_targets()
            flagged = {r[0] for r in wf.db.execute("SELECT node FROM step WHERE _check_after")}
        expected_flag = {i for o, (need, vol, i) in needs.items() if o.startswith(d) and not vol}
        ctx.count("target_dirs", d, files)
        got_labels = {o for o, (_, _, i) in needs.items() if i in flagged}
        exp_labels = {o for o, (_, _, i) in needs.items() if i in expected_flag}
        if got_labels != exp_labels:
            ctx.vio("target_dirs", d, files, got_labels, exp_labels, extra="(reconcile flags)")
        async with wf.db:
            wf.db.execute("UPDATE step SET _check_after = 1")
            sched._update_meta_after()
            implied = dict(wf.db.execute("SELECT node, _implied_need FROM step"))
        got_labels = {o for o, (_, _, i) in needs.items() if implied[i] == Need.TARGET.value}
        exp_labels = {o for o, (need, vol, i) in needs.items()
                      if o.startswith(d) and not vol and need == Need.DEFAULT}
        ctx.count("target_dirs", d, files)
        if got_labels != exp_labels:
            ctx.vio("target_dirs", d, files, got_labels, exp_labels, extra="(implied need)")
    finally:
        await close_workflow(wf, stack)


def run_case(case):
    rng = random.Random(case["seed"])
    ctx = Ctx()
    if case["mode"] == "exhaustive":
        alpha = ["a", "A", "_", "%", "/", "0"]
        names = ["".join(t) for n in range(1, case["maxlen"] + 1)
                 for t in itertools.product(alpha, repeat=n)]
        labels = [n for n in names if not n.startswith("/") and "//" not in n]
        dirs = [n + "/" for n in names if "/" not in n]
        for d in dirs:
            raw_sites(ctx, d, labels)
    else:
        loop = asyncio.new_event_loop()
        try:
            for _ in range(case["nuniv"]):
                d, labels = gen_universe(rng)
                raw_sites(ctx, d, labels)
                loop.run_until_complete(workflow_sites(ctx, rng, d, labels))
                # Glob meta characters only reach the raw predicates:
                # a static tree with a wildcard in its path is rejected by design.
                rng.raw_extra = True
                d, labels = gen_universe(rng)
                rng.raw_extra = False
                raw_sites(ctx, d, labels)
        finally:
            loop.close()
    return {
        "status": "violation" if ctx.violations else "held",
        "violations": ctx.violations,
        "counters": ctx.counters,
        "nontrivial": ctx.nontrivial,
        "nontrivial_many": True,
        "sample": {"mode": case["mode"]},
    }
