"""C07: a successful build leaves no orphaned outputs behind.

Shares the file-system ledger engine of C06 (`c06.run_history`).  After every build that ended
with status zero, was not restricted to targets and ran with cleaning enabled:
  files   every file on disk that a step's command wrote in this or an earlier build, that still
          holds exactly what the step wrote, that is not a user file, that is not the output of
          an attached step which succeeded, and that no attached step uses as an input, is an
          orphan that should have been removed
  graph   no detached file node is left for a path that was ever a product, unless an attached
          step still uses it as an input or the file was kept on disk because the user modified it
  dirs    no empty directory is left that appeared during a build (was not made by the user)
"""

from __future__ import annotations

import os

from vmon.checks import c06

PROPERTY = "C07"
LEVEL = "exploration"
RULE = c06.RULE
TIMEOUT = 900
REQUIRED_COUNTERS = ["clean_successful_builds", "files_judged", "orphans_removed_seen", "steps_dropped_seen",
                     "detached_nodes_judged", "dirs_judged"]
ASSUMPTIONS = c06.ASSUMPTIONS

SUCCEEDED = 23


def gen_cases(tier, seed):
    n = 40 if tier == "quick" else 700
    cases = [{"id": f"c07-{seed}-{i}", "seed": seed * 5003 + i} for i in range(n)]
    cases += [{"id": f"c07-directed-{k}", "seed": seed, "scenario": k} for k in ("optional", "optional_amend", "renamed_output", "touched_orphan")]
    return cases


INDIRECT_MECH = ("orphaned output kept because a detached step that consumes it leads, through its "
                 "own products, to a file that an active step still uses as an input")


def held_indirectly(snap, start):
    """Whether a detached node reaches an attached node over dependency and creator edges: the
    fixed point that Trellis.delete_detached documents."""
    node = snap["node"]
    succ = {}
    for _i, (src, snk) in snap["dep"].items():
        succ.setdefault(src, []).append(snk)
    for i, (_k, _l, creator, _d) in node.items():
        if creator is not None:
            succ.setdefault(creator, []).append(i)
    seen, stack = {start}, [start]
    while stack:
        n = stack.pop()
        for m in succ.get(n, ()):
            if not node[m][3]:
                return True
            if m not in seen:
                seen.add(m)
                stack.append(m)
    return False


def check07(ctx):
    counters, vio, what = ctx["counters"], ctx["vio"], ctx["what"]
    for key in REQUIRED_COUNTERS + ["kept_because_modified", "kept_because_input", "optional_outputs_removed"]:
        counters.setdefault(key, 0)
    b, cfg, snap, ledger = ctx["build"], ctx["cfg"], ctx["snap"], ctx["ledger"]
    removed = [p for p in ctx["before_files"] if p not in ctx["after_files"]]
    counters["orphans_removed_seen"] += len(removed)
    if ctx["action"] and "drop step" in ctx["action"]:
        counters["steps_dropped_seen"] += 1
    if b.returncode.value != 0 or cfg.get("targets") or cfg.get("target_dirs") or cfg.get("clean") is False:
        return
    counters["clean_successful_builds"] += 1
    node = snap["node"]
    live = set()          # outputs of attached steps that succeeded
    attached_labels = set()
    for fi, (state, _h) in snap["file"].items():
        kind, lab, creator, det = node[fi]
        if det:
            continue
        attached_labels.add(lab)
        if state in c06.STATIC:
            live.add(lab)      # adopted by the user as a static file
        if state in c06.PRODUCT and creator in snap["step"] and not node[creator][3] \
                and snap["step"][creator]["state"] == SUCCEEDED:
            live.add(lab)
    used_as_input = set()
    for _i, (src, snk) in snap["dep"].items():
        if node[src][0] == "file" and snk in snap["step"] and not node[snk][3]:
            used_as_input.add(node[src][1])
    for p, digest in ctx["after_files"].items():
        if p in ledger.user or p not in ledger.written or p in live:
            continue
        counters["files_judged"] += 1
        if p in used_as_input:
            counters["kept_because_input"] += 1
            continue
        if digest != ledger.written[p] and p not in ledger.ever_volatile:
            counters["kept_because_modified"] += 1
            continue
        ids = [fi for fi in snap["file"] if node[fi][1] == p and node[fi][3]]
        if ids and held_indirectly(snap, ids[0]):
            vio(INDIRECT_MECH, f"{what}: {p}")
            continue
        vio("orphaned output left on disk after a successful build with cleaning",
            f"{what}: {p} (attached node: {p in attached_labels})")
    for fi, (state, _h) in snap["file"].items():
        kind, lab, creator, det = node[fi]
        if not det or lab not in ledger.ever_product:
            continue
        counters["detached_nodes_judged"] += 1
        if lab in used_as_input or lab in ledger.user:
            continue
        if lab in ctx["after_files"] and ctx["after_files"][lab] != ledger.written.get(lab):
            continue
        if held_indirectly(snap, fi):
            vio(INDIRECT_MECH, f"{what}: node {lab}")
            continue
        vio("detached node of a former output left in the graph after a successful build with cleaning",
            f"{what}: {lab} (state {state}, on disk: {lab in ctx['after_files']})")
    files = ctx["after_files"]
    if not hasattr(ledger, "orphan_dirs"):
        ledger.orphan_dirs = set()
    for p in removed:
        d = os.path.dirname(p)
        while d:
            ledger.orphan_dirs.add(d)
            d = os.path.dirname(d)
    workdirs = set()
    for si in snap["step"]:
        lab = node[si][1]
        if not node[si][3] and "  # wd=" in lab:
            wd = lab.rsplit("  # wd=", 1)[1].rstrip("/")
            while wd:
                workdirs.add(wd)
                wd = os.path.dirname(wd)
    for d in ctx["after_dirs"]:
        # a directory that appeared during a build, held an orphan that was removed, and is not
        # needed by what the workflow still defines
        if d not in ledger.created_dirs or d not in ledger.orphan_dirs or d in workdirs:
            continue
        counters["dirs_judged"] += 1
        if any(f.startswith(d + os.sep) for f in files) or any(o.startswith(d + os.sep) for o in ctx["after_dirs"]):
            continue
        if any(lab.startswith(d + os.sep) for lab in attached_labels):
            continue
        vio("empty directory that StepUp created for a removed output left behind", f"{what}: {d}")


def directed_optional(amend):
    """An optional step is needed by a default step; the default step is dropped: the optional
    step is reverted and everything it produced has to go."""
    import copy
    spec = {"sources": {"src/a.txt": "a\n"}, "env": {},
            "steps": {"O": {"kind": "do", "salt": "", "inp": ["src/a.txt"], "out": ["out/o.txt"], "need": "OPTIONAL"},
                      "D": {"kind": "do", "salt": "", "inp": ["out/o.txt"], "out": ["out/d.txt"]},
                      "K": {"kind": "do", "salt": "", "inp": ["src/a.txt"], "out": ["keep/k.txt"]}},
            "plans": {".": [["static", ["src/a.txt"]], ["step", "O"], ["step", "D"], ["step", "K"]]},
            "order": ["O", "D", "K"]}
    if amend:
        spec["steps"]["O"]["amend_out"] = ["out/o_am.txt"]
    two = copy.deepcopy(spec)
    two["plans"]["."] = [it for it in two["plans"]["."] if it != ["step", "D"]]
    return spec, two


def directed_renamed_output():
    """A step renames its output (same label: its program lives in a file) while a new consumer
    still names the old path; the consumer is corrected in the next phase."""
    import copy
    one = {"sources": {"src/a.txt": "a\n"}, "env": {},
           "steps": {"G": {"kind": "prog", "salt": "", "inp": ["src/a.txt"], "out": ["gen/x.txt"]}},
           "plans": {".": [["static", ["src/a.txt", "progs/G.json"]], ["step", "G"]]}, "order": ["G"]}
    two = copy.deepcopy(one)
    two["steps"]["G"]["out"] = ["gen/y.txt"]
    two["steps"]["K"] = {"kind": "do", "salt": "", "inp": ["gen/x.txt"], "out": ["copy/c.txt"]}
    two["plans"]["."].append(["step", "K"])
    two["order"].append("K")
    three = copy.deepcopy(two)
    three["steps"]["K"]["inp"] = ["gen/y.txt"]
    return [one, two, three, three]


def run_directed(case):
    import json
    import random
    import shutil
    from vmon import gen, harness as H
    from vmon.checks import c04
    rng = random.Random(case["seed"])
    counters = {"evaluations": 0}
    violations = []
    classes = set()

    def vio(mechanism, message):
        violations.append({"mechanism": mechanism, "message": f"{case['id']}: {message}", "witness": {"case": case["id"]}})

    os.makedirs("d")
    cwd = os.getcwd()
    os.chdir("d")
    try:
        if case["scenario"] == "renamed_output":
            specs = directed_renamed_output()
        else:
            spec, two = directed_optional(case["scenario"] == "optional_amend")
            specs = [spec, two, two]
        ledger = c06.Ledger()
        files = None
        snap_prev = None
        for k, cur in enumerate(specs):
            ledger.note_user_files(cur)
            files = gen.render(cur, previous=files)
            if case["scenario"] == "touched_orphan" and k == 1:
                # the outputs get a new time stamp, not a new content (touch, a restored backup, a
                # checkout): they are still what StepUp built, so they go when their steps go
                for path in ("out/o.txt", "out/d.txt"):
                    st = os.stat(path)
                    os.utime(path, ns=(st.st_atime_ns, st.st_mtime_ns + 7_000_000_000))
                    counters["outputs_touched"] = counters.get("outputs_touched", 0) + 1
            bf, bd = c06.tree(".")
            b = H.run_build({"njob": 2}, ctl=H.Controller("free", rng.randrange(1 << 30)), timeout=60)
            af, ad = c06.tree(".")
            snap = c04.db_snapshot()
            ledger.note_build(b, snap, bd, ad)
            counters["evaluations"] += 1
            check07({"ledger": ledger, "build": b, "cfg": {"njob": 2}, "snap": snap, "snap_prev": snap_prev,
                     "before_files": bf, "after_files": af, "after_dirs": ad, "before_dirs": bd, "spec": cur,
                     "what": f"{case['scenario']} build {k}", "vio": vio, "counters": counters,
                     "classes": classes, "action": "drop step D" if k == 1 else None})
            classes.add(repr((case["scenario"], k, sorted(af)[:8])))
            snap_prev = snap
        counters["optional_outputs_removed"] = 0 if "out/o.txt" in af else 1
    finally:
        os.chdir(cwd)
        shutil.rmtree("d", ignore_errors=True)
    for key in c06.REQUIRED_COUNTERS:
        counters.setdefault(key, 0)
    return {"status": "violation" if violations else "held", "violations": violations, "counters": counters,
            "nontrivial": sorted(classes), "nontrivial_many": True, "sample": {"case": case["id"]}}


def run_case(case):
    if "scenario" in case:
        return run_directed(case)
    return c06.run_history(case, check07=check07)
