"""C08: every path has one owner and conflicts are rejected in either order.

Claims invariant (commit monitor, inside every committing transaction):
  one      at most one attached file node per path
  tree     attached static trees are not nested, and every attached file node beneath an attached
           static tree is created by that tree
  glob     no pattern registered by an attached step matches (full regex match) the path of an
           attached file node in the OUTPUT or VOLATILE role
Order oracle (differential over real builds): for a pair of declarations A and B the four builds
{A alone, B alone, A then B, B then A} are run on identical fresh projects, with the order forced
by signal/await actions between two sibling steps (or inside one step for the same creator).
  conflict(A, B)  := B is rejected after A although B alone is accepted
  required        := conflict(A, B) <=> conflict(B, A), and "both accepted" in one order implies
                     "both accepted" in the other
  repeat          := the same declaration repeated by the same creator in the same role is
                     accepted and its transaction changes nothing in the persistent tables
"""

from __future__ import annotations

import itertools
import json
import os
import random
import re
import shutil

from vmon import commitmon, harness as H

PROPERTY = "C08"
LEVEL = "exploration"
RULE = "distinct (kind of A, kind of B, same or different creator, path relation, outcome pattern) tuples"
TIMEOUT = 600
REQUIRED_COUNTERS = ["pairs", "conflicts_seen", "both_accepted", "repeats_checked", "claims_checks",
                     "tree_claims_checked", "glob_claims_checked"]
ASSUMPTIONS = ["paths arrive normalised, as api.py sends them (spellings are C20's subject)",
               "mode A: requests over the real RPC socket from simulated steps"]

FILES = ["a", "d/b", "d/e/c", "x.txt"]
DIRS = ["d/", "d/e/"]
PATTERNS = ["*", "d/*", "d/**", "*.txt", "d/e/${*n}"]

TREE_PARENT_MECH = ("one creator declares a static tree and later its parent directory: rejected, "
                    "while the parent first and the subdirectory second is a no-op")

KINDS = ["static", "tree", "glob", "out", "vol", "inp", "amend_out", "amend_vol", "amend_inp",
         "static_pattern"]


def decl(kind, path, tag):
    """The raw request of one declaration."""
    if kind == "static":
        return {"a": "raw", "name": "declare_static", "args": [[], [path], []]}
    if kind == "tree":
        return {"a": "raw", "name": "declare_static", "args": [[path], [], []]}
    if kind == "glob":
        return {"a": "raw", "name": "register_glob", "args": [path, {}, "@matches"]}
    if kind == "static_pattern":
        return {"a": "raw", "name": "declare_static", "args": ["@trees", "@files", [[path, "@matches"]]]}
    if kind == "out":
        return {"a": "raw", "name": "define_step",
                "args": [f"do [] #{tag}", [], [], [path], [], ".", 32, {}, False, None, None]}
    if kind == "vol":
        return {"a": "raw", "name": "define_step",
                "args": [f"do [] #{tag}", [], [], [], [path], ".", 32, {}, False, None, None]}
    if kind == "inp":
        return {"a": "raw", "name": "define_step",
                "args": [f"do [] #{tag}", [path], [], [], [], ".", 32, {}, False, None, None]}
    if kind == "amend_out":
        return {"a": "raw", "name": "amend_step", "args": [[], [], [path], []]}
    if kind == "amend_vol":
        return {"a": "raw", "name": "amend_step", "args": [[], [], [], [path]]}
    if kind == "amend_inp":
        return {"a": "raw", "name": "amend_step", "args": [[path], [], [], []]}
    raise AssertionError(kind)


def resolve(req):
    """Fill in the match list of a pattern from the files on disk (what api.glob would send)."""
    from stepup.core.nglob import NamedGlob

    req = json.loads(json.dumps(req))
    args = req["args"]
    if req["name"] == "register_glob" and args[2] == "@matches":
        ng = NamedGlob(args[0], {})
        ng.glob()
        args[2] = sorted(str(p) for p in ng.files())
    if req["name"] == "declare_static" and args[0] == "@trees":
        pat = args[2][0][0]
        ng = NamedGlob(pat)
        ng.glob()
        matches = sorted(str(p) for p in ng.files())
        args[0] = [m for m in matches if m.endswith("/")]
        args[1] = [m for m in matches if not m.endswith("/")]
        args[2] = [[pat, matches]]
    return req


def candidates(kind):
    if kind == "tree":
        return DIRS
    if kind in ("glob", "static_pattern"):
        return PATTERNS
    return FILES


def gen_cases(tier, seed):
    pairs = []
    for ka, kb in itertools.product(KINDS, KINDS):
        for pa in candidates(ka):
            for pb in candidates(kb):
                for same in (False, True):
                    pairs.append((ka, pa, kb, pb, same))
    rng = random.Random(seed)
    rng.shuffle(pairs)
    n = 220 if tier == "quick" else len(pairs)
    chunk = 10 if tier == "quick" else 40
    chosen = pairs[:n]
    # the directed diagonal is always present: same path, every kind pair, both creators
    diag = [(ka, candidates(ka)[0], kb, candidates(kb)[0], same) for ka in KINDS for kb in KINDS
            for same in (False, True)]
    directed = [("tree", "d/e/", "tree", "d/", True), ("tree", "d/e/", "tree", "d/", False),
                ("static", "d/b", "tree", "d/", True), ("static", "d/b", "tree", "d/", False),
                ("out", "d/e/c", "tree", "d/", False), ("glob", "d/**", "out", "d/e/c", False),
                ("glob", "d/**", "amend_vol", "d/e/c", True), ("inp", "a", "vol", "a", False),
                ("amend_inp", "a", "amend_vol", "a", True)]
    chosen = directed + diag + [p for p in chosen if p not in diag and p not in directed]
    cases = []
    for k in range(0, len(chosen), chunk):
        cases.append({"id": f"c08-pairs-{seed}-{k // chunk}", "seed": seed * 31 + k, "pairs": chosen[k:k + chunk]})
    hist = [(ka, pa, kb, pb) for ka in ("out", "vol", "inp") for pa in FILES[:2]
            for kb, pb in (("glob", "*"), ("glob", "d/*"), ("static", pa), ("tree", "d/"), ("static_pattern", "*"))]
    for k in range(0, len(hist), 6):
        cases.append({"id": f"c08-history-{k // 6}", "seed": seed + k, "kind": "history", "pairs": hist[k:k + 6]})
    nseq = 12 if tier == "quick" else 300
    cases += [{"id": f"c08-seq-{seed}-{i}", "seed": seed * 4099 + i, "kind": "seq"} for i in range(nseq)]
    return cases


# ---------------------------------------------------------------------------------------------
# claims invariant
# ---------------------------------------------------------------------------------------------

PRODUCT = (15, 16, 17, 18)


def claims_checker(mon, prev, snap, tx):
    if snap is None:
        return
    mon.count("claims_checks")
    nodes = snap["node"]
    seen = {}
    attached_files = []
    for fi, (state, _h) in snap["file"].items():
        kind, lab, creator, det = nodes[fi]
        if det:
            continue
        attached_files.append((fi, lab, creator, state))
        if lab in seen:
            mon.finding("two attached file nodes claim one path", f"{lab} (transaction {tx.index}, {tx.task_name})")
        seen[lab] = fi
    trees = [(i, lab) for i, (kind, lab, _c, det) in nodes.items() if kind == "st" and not det]
    for (i, lab), (j, other) in itertools.permutations(trees, 2):
        if other.startswith(lab) and other != lab:
            mon.finding("nested attached static trees", f"{other} inside {lab}")
        if other == lab and i < j:
            mon.finding("two attached static trees with one path", lab)
    for fi, lab, creator, state in attached_files:
        for ti, tlab in trees:
            if lab.startswith(tlab):
                mon.count("tree_claims_checked")
                if creator != ti:
                    ck = nodes.get(creator, ("?", "?"))
                    mon.finding("path beneath an attached static tree is claimed by something else",
                                f"{lab} under {tlab} is created by {ck[0]} {str(ck[1])[:60]!r} "
                                f"(transaction {tx.index}, {tx.task_name})")
    products = [(lab, creator) for _fi, lab, creator, state in attached_files if state in PRODUCT]
    for _i, (node, pattern, regex, _data) in snap["nglob"].items():
        if nodes[node][3]:
            continue
        rx = re.compile(regex)
        for lab, creator in products:
            mon.count("glob_claims_checked")
            if rx.fullmatch(lab):
                mon.finding("registered glob pattern matches a path that a step builds",
                            f"{pattern!r} of {nodes[node][1][:50]!r} matches {lab} built by "
                            f"{nodes[creator][1][:50]!r} (transaction {tx.index}, {tx.task_name})")


def delta_checker(mon, prev, snap, tx):
    """Remember, per request transaction, whether it changed the persistent tables."""
    if not tx.task_name.startswith("RPC:") or tx.rolled_back is not None:
        return
    changed = False
    if snap is not None and prev is not None:
        changed = commitmon.persistent_dump(prev) != commitmon.persistent_dump(snap)
        if changed:
            a, b = commitmon.persistent_dump(prev), commitmon.persistent_dump(snap)
            mon.last_delta = {k: [str(x)[:120] for x in list(set(map(repr, b[k].items() if isinstance(b[k], dict) else b[k]))
                                                           ^ set(map(repr, a[k].items() if isinstance(a[k], dict) else a[k])))[:4]]
                              for k in a if a[k] != b[k]}
    if not hasattr(mon, "rpc_changes"):
        mon.rpc_changes = []
    mon.rpc_changes.append((tx.task_name, changed, getattr(mon, "last_delta", None) if changed else None))


# ---------------------------------------------------------------------------------------------
# builds
# ---------------------------------------------------------------------------------------------


def fresh_project():
    for p in list(os.listdir(".")):
        shutil.rmtree(p) if os.path.isdir(p) else os.unlink(p)
    for p in FILES:
        H.write_file(p, f"user file {p}\n")


def run_sequence(seq, rng, mode="free", keep=False):
    """seq: list of (creator, request).  Creators "P" and "Q" are sibling steps of the plan; the
    order of the requests is forced with signal/await.  Returns [(ok, error, message, writes)]."""
    if not keep:
        fresh_project()
    progs = {"P": [], "Q": []}
    conductor = []
    for k, (creator, req) in enumerate(seq):
        j = sum(1 for a in progs[creator] if a.get("a") == "raw")
        progs[creator] += [{"a": "await", "key": f"turn{creator}{j}"}, dict(req),
                           {"a": "signal", "key": f"done{creator}{j}"}]
        conductor += [{"a": "signal", "key": f"turn{creator}{j}"}, {"a": "await", "key": f"done{creator}{j}"}]
    # The requesters' labels do not depend on the arrival order (for different creators): the
    # order is imposed by a third step, the conductor.
    plan = [{"a": "step", "need": "PLAN", "cmd": "do " + json.dumps(conductor + [{"a": "gate", "name": "C"}])}]
    for name in ("P", "Q"):
        if progs[name]:
            plan.append({"a": "step", "need": "PLAN", "cmd": "do " + json.dumps(
                [resolve(a) if a.get("a") == "raw" else a for a in progs[name]] + [{"a": "gate", "name": name}])})
    H.write_plan("plan.py", plan)
    mon = commitmon.CommitMonitor(checkers=[claims_checker, delta_checker])
    mon.keep_tx = True
    ctl = H.Controller(mode, rng.randrange(1 << 30))
    b = H.run_build({"njob": 3, "keep_going": True}, ctl=ctl, monitors=[mon], timeout=60)
    first_job = {}
    for e in b.events:
        if e["type"] == "cmd_start":
            first_job.setdefault(e["step"], e["job"])
    # only the first execution of each requester: a deferred requester is run again later
    done = [e for e in b.events if e["type"] == "raw_done" and first_job.get(e["step"]) == e["job"]]
    outcomes = []
    for e in done:
        outcomes.append((e["ok"], e.get("error"), (e.get("message") or "")[-400:]))
    return outcomes, mon, b


def run_case(case):
    rng = random.Random(case["seed"])
    counters = dict.fromkeys(["evaluations", "builds", "asymmetric_skipped", "solo_rejected",
                              "sequences", "sequence_requests", "repeat_deltas_checked", "histories",
                              "claim_pairs_on_one_path"] + REQUIRED_COUNTERS, 0)
    violations = []
    classes = set()

    def vio(mechanism, message, witness):
        if sum(1 for v in violations if v["mechanism"] == mechanism) < 2:
            violations.append({"mechanism": mechanism, "message": f"{case['id']}: {message}",
                               "witness": json.loads(json.dumps(witness, default=str))})

    def collect(mon, what, witness):
        counters["builds"] += 1
        for key in ("claims_checks", "tree_claims_checked", "glob_claims_checked"):
            counters[key] += mon.counters.get(key, 0)
        for mech, msg, _w in mon.findings:
            if mech.startswith("harness:") or mech.startswith("statement "):
                continue
            vio(mech, f"{what}: {msg}", witness)

    os.makedirs("w")
    cwd = os.getcwd()
    os.chdir("w")
    try:
        if case.get("kind") == "history":
            # a second build on the same database: steps of the first build are recycled by the
            # re-run plan; a declaration that conflicts with what is recycled must still be rejected
            for ka, pa, kb, pb in case["pairs"]:
                A, B = decl(ka, pa, "A"), decl(kb, pb, "B")
                witness = {"A": A, "B": B, "history": "build 1: A; build 2: B then A (same creator)"}
                out1, mon1, _b = run_sequence([("P", A)], rng)
                collect(mon1, f"history build 1 of {ka} {pa}", witness)
                out2, mon2, _b = run_sequence([("P", B), ("P", A)], rng, keep=True)
                collect(mon2, f"history build 2 of {kb} {pb} then {ka} {pa}", witness)
                fresh, monf, _b = run_sequence([("P", B), ("P", A)], rng)
                counters["histories"] += 1
                counters["evaluations"] += 1
                if len(out2) == 2 and len(fresh) == 2:
                    classes.add(repr(("history", ka, kb, tuple(o[0] for o in out2))))
                    # Which of the two is rejected may differ (the old step is still attached while
                    # the plan runs again), but a pair that conflicts on a fresh database must not
                    # be accepted as a whole because the step is recycled.
                    if not all(o[0] for o in fresh) and all(o[0] for o in out2):
                        vio("conflicting declarations are both accepted when the step is recycled from an earlier build",
                            f"B={kb} {pb} then A={ka} {pa}: fresh {[o[0] for o in fresh]}, after an earlier "
                            f"build of A {[o[0] for o in out2]}", witness)
        elif case.get("kind") == "seq":
            # random longer sequences by two creators: only the claims invariant is judged
            for rep in range(4):
                seq = []
                for k in range(rng.randint(3, 8)):
                    kind = rng.choice(KINDS)
                    seq.append((rng.choice("PQ"), decl(kind, rng.choice(candidates(kind)), f"s{k}")))
                outcomes, mon, _b = run_sequence(seq, rng, rng.choice(["free", "jitter"]))
                counters["sequences"] += 1
                counters["sequence_requests"] += len(outcomes)
                counters["evaluations"] += 1
                collect(mon, f"sequence {rep}", {"sequence": seq})
                classes.add(repr(("seq", tuple(o[0] for o in outcomes))))
        else:
            for ka, pa, kb, pb, same in case["pairs"]:
                A = decl(ka, pa, "A")
                B = decl(kb, pb, "B")
                ca, cb = ("P", "P") if same else ("P", "Q")
                witness = {"A": A, "B": B, "same_creator": same}
                res = {}
                for name, seq in (("A", [(ca, A)]), ("B", [(cb, B)]), ("AB", [(ca, A), (cb, B)]),
                                  ("BA", [(cb, B), (ca, A)])):
                    outcomes, mon, b = run_sequence(seq, rng)
                    collect(mon, f"{name} of {ka} {pa} / {kb} {pb}", witness)
                    if len(outcomes) != len(seq):
                        res = None
                        break
                    res[name] = outcomes
                if res is None:
                    counters["asymmetric_skipped"] += 1
                    continue
                counters["pairs"] += 1
                counters["evaluations"] += 1
                a_solo, b_solo = res["A"][0][0], res["B"][0][0]
                ab = (res["AB"][0][0], res["AB"][1][0])      # (A ok, B ok)
                ba = (res["BA"][1][0], res["BA"][0][0])      # (A ok, B ok)
                witness["outcomes"] = {k: [(o[0], o[1], o[2][-160:]) for o in v] for k, v in res.items()}
                if not (a_solo and b_solo):
                    counters["solo_rejected"] += 1
                conflict_ab = b_solo and ab[0] and not ab[1]
                conflict_ba = a_solo and ba[1] and not ba[0]
                if ab[0] != a_solo:
                    vio("first declaration judged differently than alone", f"A={ka} {pa}: alone {a_solo}, first {ab[0]}", witness)
                if ba[1] != b_solo:
                    vio("first declaration judged differently than alone", f"B={kb} {pb}: alone {b_solo}, first {ba[1]}", witness)
                messages = " ".join(o[2] for v in res.values() for o in v)
                if conflict_ab != conflict_ba and same and \
                        ("is a parent directory of static tree" in messages
                         or "Static tree is a parent directory of an existing static tree" in messages):
                    vio(TREE_PARENT_MECH,
                        f"A={ka} {pa}, B={kb} {pb}: A then B -> {ab}, B then A -> (A {ba[0]}, B {ba[1]})", witness)
                elif conflict_ab != conflict_ba:
                    vio("conflict rejected in one arrival order only",
                        f"A={ka} {pa}, B={kb} {pb}, {'same' if same else 'different'} creator: "
                        f"A then B -> {ab}, B then A -> (A {ba[0]}, B {ba[1]})", witness)
                role = {"static": "static", "out": "output", "amend_out": "output", "vol": "volatile",
                        "amend_vol": "volatile"}
                if ka in role and kb in role and pa == pb:
                    same_claimant = same and ka == kb and ka in ("static", "amend_out", "amend_vol")
                    same_claimant = same_claimant or (same and {ka, kb} <= {"static"})
                    counters["claim_pairs_on_one_path"] += 1
                    if not same_claimant and a_solo and b_solo and (ab == (True, True) or ba == (True, True)):
                        vio("two declarations claiming one path are both accepted",
                            f"A={ka} {pa}, B={kb} {pb}, {'same' if same else 'different'} requester: "
                            f"A then B -> {ab}, B then A -> (A {ba[0]}, B {ba[1]})", witness)
                if conflict_ab or conflict_ba:
                    counters["conflicts_seen"] += 1
                if ab == (True, True) or ba == (True, True):
                    counters["both_accepted"] += 1
                rel = "same" if pa == pb else ("under" if pb.startswith(pa) or pa.startswith(pb) else "other")
                classes.add(repr((ka, kb, same, rel, ab, ba)))
                # repeat: A twice by the same creator
                if same and ka == kb and pa == pb and a_solo and ka not in ("out", "vol", "inp"):
                    outcomes, mon, b = run_sequence([("P", A), ("P", A)], rng)
                    collect(mon, f"repeat of {ka} {pa}", witness)
                    if len(outcomes) == 2:
                        counters["repeats_checked"] += 1
                        if not outcomes[1][0]:
                            vio("repeated declaration by the same creator is rejected",
                                f"{ka} {pa}: {outcomes[1][1]}: {outcomes[1][2][-200:]}", witness)
                        else:
                            mine = [c for c in getattr(mon, "rpc_changes", []) if c[0].startswith("RPC:" + A["name"] + "-")]
                            tasks = []
                            for c in mine:
                                if c[0] not in tasks:
                                    tasks.append(c[0])
                            if len(tasks) == 2:
                                counters["repeat_deltas_checked"] += 1
                                # a glob pattern is a query, not a claim with a role: a second
                                # registration row is not a change of ownership
                                second = [c for c in mine if c[0] == tasks[1] and c[1]
                                          and set(c[2] or {"?": 1}) != {"nglob"}]
                                if second:
                                    vio("repeated declaration changes the stored workflow",
                                        f"{ka} {pa}: {second[0][2]}", witness)
    finally:
        os.chdir(cwd)
        shutil.rmtree("w", ignore_errors=True)
    return {
        "status": "violation" if violations else "held",
        "violations": violations,
        "counters": counters,
        "nontrivial": sorted(classes),
        "nontrivial_many": True,
        "sample": {"case": case["id"], "classes": sorted(classes)[:3]},
    }
