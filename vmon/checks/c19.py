"""C19: exit status and final report tell the truth about the build.

At the end of every build phase (hook after `Builder.job_loop`, before `finalize`) the tables are
snapshotted; the return code of `serve()` and the reporter events are then compared with an
independent evaluation of that snapshot:
  FAILED   set exactly when an attached step is FAILED, or (only evaluated by StepUp when nothing
           else went wrong) a recorded glob match is a file that a step builds, or a target is invalid
  PENDING  set exactly when the scheduler was not draining and a required step (definitional
           implied need above the threshold) is PENDING
  DRAINED  set exactly when the scheduler was draining
  zero     only if every required step is SUCCEEDED and no WARNING/ERROR was reported
Summary: `analyze_pending` is observed through its scratch tables right before they are dropped:
its universe equals the independently computed set of pending required steps, every pending step
has at most one attributed cause (and the others are exactly the cyclic bucket), the attributed
totals plus the cyclic bucket equal the total, and the reported sentence carries that number.
"""

from __future__ import annotations

import json
import os
import random
import shutil

from vmon import commitmon, gen, harness as H, invariants as I
from vmon.checks import c10

PROPERTY = "C19"
LEVEL = "exploration"
RULE = (
    "distinct (return code, draining, number of failed steps > 0, pending required > 0, "
    "summary bucket pattern) outcomes over builds that did not simply succeed"
)
TIMEOUT = 600
REQUIRED_COUNTERS = ["builds", "rc_failed", "rc_pending", "rc_drained", "rc_zero", "summaries_checked",
                     "invalid_target_builds", "rc_warning", "orphaned_failed_only"]
ASSUMPTIONS = ["mode A; INTERNAL and INTERRUPTED are set by the terminal front end and are not "
               "part of serve()'s return code"]

FAILED, WARNING, PENDING, DRAINED = 4, 8, 16, 32


def _base(extra_sources=None):
    return {"sources": {"src/a.txt": "a\n", **(extra_sources or {})}, "env": {},
            "steps": {"A": {"kind": "do", "salt": "", "inp": ["src/a.txt"], "out": ["out/a.txt"]}},
            "plans": {".": [["static", ["src/a.txt"]], ["step", "A"]]}}


def scenario_glob_unjustified():
    """A pattern matches user files that nothing declares static: WARNING and nothing else."""
    spec = _base({"extra/a.dat": "1\n", "extra/b.dat": "2\n"})
    spec["plans"]["."].append(["glob", "extra/*.dat"])
    return spec, [], {"njob": 1}


def scenario_glob_on_built():
    """A recorded match becomes a build product while the globbing step is orphaned, and the
    globbing step is recycled afterwards (skipped, so it keeps its recorded matches)."""
    import copy
    spec = _base({"gen/x.txt": "user\n"})
    spec["plans"]["."] += [["static", ["sub/plan.py"]], ["plan", "sub"]]
    spec["plans"]["sub"] = [["glob", "gen/*.txt"]]
    two = copy.deepcopy(spec)
    del two["sources"]["gen/x.txt"]
    two["plans"]["."] = [it for it in two["plans"]["."] if it != ["plan", "sub"]]
    two["steps"]["G"] = {"kind": "do", "salt": "", "inp": ["src/a.txt"], "out": ["gen/x.txt"]}
    two["plans"]["."].append(["step", "G"])
    three = copy.deepcopy(two)
    three["plans"]["."].append(["plan", "sub"])
    return spec, [{"spec": two, "edits": ["drop sub plan, build gen/x.txt"]},
                  {"spec": three, "edits": ["restore sub plan"]}], {"njob": 1}


def scenario_missing_targets():
    spec = _base()
    return spec, [], {"njob": 1, "targets": ["out/nothing.txt"], "target_dirs": ["nowhere/"]}


def scenario_static_target():
    spec = _base()
    return spec, [{"spec": spec, "edits": []}], {"njob": 1, "targets": ["src/a.txt"]}


def scenario_orphaned_failed_step():
    """A plan declares a step that fails and then fails itself, so the failed step is orphaned; the
    repaired plan does not declare it any more.  In the second build every attached step succeeds
    while the orphan is still recorded as FAILED (it is only removed by the cleanup, which comes
    after the status was decided): that build has to end with status 0."""
    import copy
    spec = _base()
    bprog = [{"a": "signal", "key": "b_failing"}, {"a": "fail", "rc": 3}]
    spec["plans"]["."] += [["raw", {"a": "step", "cmd": "do " + json.dumps(bprog)}],
                           ["raw", {"a": "await", "key": "b_failing"}], ["raw", {"a": "sleep", "s": 0.05}],
                           ["raw", {"a": "fail", "rc": 3}]]
    spec2 = copy.deepcopy(_base())
    return spec, [{"spec": spec2, "edits": [["repair_plan", "without the failing step"]]}], \
        {"njob": 3, "keep_going": True, "no_drain": True}


SCENARIOS = dict(c10.SCENARIOS)
SCENARIOS.update({"glob_unjustified": scenario_glob_unjustified, "glob_on_built": scenario_glob_on_built,
                  "missing_targets": scenario_missing_targets,
                  "orphaned_failed_step": scenario_orphaned_failed_step, "static_target": scenario_static_target})


def add_cycle(rng, spec):
    """Two steps that each discover (amend) the other's output as an input: a dynamic cycle."""
    order = spec.get("order", sorted(spec["steps"]))
    cands = [sid for sid in order if any(p.startswith("src/") for p in spec["steps"][sid]["inp"])
             and spec["steps"][sid].get("out")]
    if len(cands) < 2:
        return
    a, b = rng.sample(cands, 2)
    for one, other in ((a, b), (b, a)):
        st = spec["steps"][one]
        src = [p for p in st["inp"] if p.startswith("src/")][0]
        target = spec["steps"][other]["out"][0]
        if target in st["inp"]:
            continue
        spec["sources"][src] += f"include {target}\n"
        st.setdefault("include", [])
        if src not in st["include"]:
            st["include"].append(src)


def gen_cases(tier, seed):
    n = 120 if tier == "quick" else 4000
    cases = [{"id": f"c19-seed-{k}", "seed": seed, "scenario": k} for k in SCENARIOS]
    cases += [{"id": f"c19-{seed}-{i}", "seed": seed * 1979 + i} for i in range(n)]
    return cases


class EndMonitor:
    """Snapshots the tables when a build phase ends and watches analyze_pending."""

    installed = False
    current = None

    def __init__(self):
        self.snap = None
        self.draining = None
        self.summaries = []

    def on_db(self, build, db):
        EndMonitor.current = self
        self.install()

    async def on_phase_end(self, build, handler):
        db = handler.db
        async with db:
            self.snap = commitmon.snapshot(db._held.con)
        self.draining = handler.scheduler.draining
        self.exists = {}
        for _node, _pattern, _regex, data in self.snap["nglob"].values():
            for _key, paths in json.loads(data)["results"]:
                for path in paths:
                    self.exists[path] = os.path.exists(path)

    @classmethod
    def install(cls):
        if cls.installed:
            return
        from stepup.core import pending

        orig_drop = pending._drop_pend_tables
        orig_analyze = pending._analyze_pending

        def drop(db):
            mon = cls.current
            if mon is not None and mon._in_analyze:
                try:
                    steps = {r[0] for r in db.execute("SELECT i FROM pend_step")}
                    attributed = db.execute("SELECT dst_step, root_kind FROM pend_attributed").fetchall()
                    mon._tables = (steps, attributed)
                except Exception:  # noqa: BLE001
                    pass
            return orig_drop(db)

        def analyze(workflow):
            mon = cls.current
            if mon is not None:
                mon._in_analyze = True
                mon._tables = None
            try:
                summary, totals = orig_analyze(workflow)
            finally:
                if mon is not None:
                    mon._in_analyze = False
            if mon is not None:
                mon.summaries.append((summary, totals, mon._tables, workflow.need_threshold.value))
            return summary, totals

        pending._drop_pend_tables = drop
        pending._analyze_pending = analyze
        cls.installed = True

    _in_analyze = False
    _tables = None


STATIC_STATES = (12, 13, 14)
OUTPUT_STATES = (15, 16, 17)


def evaluate(snap, targets=(), target_dirs=(), exists=None):
    snap = dict(snap)
    if snap.get("target_path") is None:
        snap["target_path"] = set(targets)
        snap["target_dir"] = {d: None for d in target_dirs}
    model = I.Model(snap)
    failed = [i for i, st in model.steps.items() if model.attached(i) and st["state"] == I.F]
    required = [i for i in model.steps if model.attached(i) and model.implied(i) > model.threshold]
    pending_required = [i for i in required if model.steps[i]["state"] == I.P]
    not_done = [i for i in required if model.steps[i]["state"] != I.S]
    attached_files = {snap["node"][fi][1]: (fi, state) for fi, (state, _h) in snap["file"].items()
                      if not snap["node"][fi][3]}
    trees = [lab for (kind, lab, _c, det) in snap["node"].values() if kind == "st" and not det]
    statics = [lab for lab, (_fi, state) in attached_files.items() if state in STATIC_STATES]
    glob_errors, glob_warnings = [], []
    for _i, (node, pattern, regex, data) in snap["nglob"].items():
        if snap["node"][node][3]:
            continue
        for key, paths in json.loads(data)["results"]:
            for path in paths:
                if path in attached_files:
                    if attached_files[path][1] not in STATIC_STATES:
                        glob_errors.append(path)
                    continue
                probe = path if path.endswith("/") else path + "/"
                if any(probe.startswith(t) for t in trees):
                    continue
                if path.endswith("/") and any(lab.startswith(path) for lab in statics + trees):
                    continue
                if exists is not None and not exists.get(path, False):
                    continue
                glob_warnings.append(path)
    # targets
    def regular_output(fi, state):
        creator = snap["node"][fi][2]
        return state in OUTPUT_STATES and creator is not None and snap["node"][creator][0] == "step"
    missing = [t for t in snap["target_path"]
               if not (t in attached_files and regular_output(*attached_files[t]))]
    missing += [d for d in snap["target_dir"]
                if not any(lab.startswith(d) and regular_output(*v) for lab, v in attached_files.items())]
    return model, failed, required, pending_required, not_done, glob_errors, glob_warnings, missing


def run_case(case):
    rng = random.Random(case["seed"])
    counters = dict.fromkeys(["evaluations", "drains_injected", "glob_warning_states", "glob_error_states", "missing_target_states", "errors_elsewhere",
                              "bucket_failed", "bucket_cyclic", "bucket_deferred", "bucket_other", "bucket_runnable",
                              "bucket_inputs", "bucket_resources"] + REQUIRED_COUNTERS, 0)
    violations = []
    classes = set()
    witness = {"case": case["id"]}

    def vio(mechanism, message):
        if sum(1 for v in violations if v["mechanism"] == mechanism) < 2:
            violations.append({"mechanism": mechanism, "message": f"{case['id']}: {message}",
                               "witness": json.loads(json.dumps(witness, default=str))})

    def check(build, end, cfg, what):
        counters["builds"] += 1
        if build.error is not None:
            text = str(build.error[1])
            if "pending.py" in text or "finalize.py" in text:
                vio("end-of-build report raised", f"{what}: {build.error[0]}: {text[-600:]}")
            else:
                counters["errors_elsewhere"] += 1
            return
        rc = build.returncode.value
        if end.snap is None:
            # no build phase ran: only an invalid target may cause that
            if any("Invalid build target" in str(m) for m in build.tagged("ERROR")):
                counters["invalid_target_builds"] += 1
                if rc != FAILED:
                    vio("invalid target does not give the FAILED status", f"{what}: rc={rc}")
            else:
                vio("no build phase ran", f"{what}: rc={rc}")
            return
        counters["evaluations"] += 1
        model, failed, required, pending_required, not_done, glob_errors, glob_warnings, missing = evaluate(
            end.snap, cfg.get("targets", ()), cfg.get("target_dirs", ()), end.exists)
        lab = lambda ids: [end.snap["node"][i][1][:70] for i in ids[:4]]  # noqa: E731
        orphans_failed = [i for i, st in model.steps.items() if not model.attached(i) and st["state"] == I.F]
        if orphans_failed:
            counters["builds_with_orphaned_failed_step"] = counters.get("builds_with_orphaned_failed_step", 0) + 1
            if not failed and not end.draining:
                counters["orphaned_failed_only"] = counters.get("orphaned_failed_only", 0) + 1
        warnings = [str(m) for m in build.tagged("WARNING")]
        errors = [str(m) for m in build.tagged("ERROR")]
        for bit, name in ((FAILED, "rc_failed"), (PENDING, "rc_pending"), (DRAINED, "rc_drained")):
            if rc & bit:
                counters[name] += 1
        if rc == 0:
            counters["rc_zero"] += 1
        counters["glob_warning_states"] += bool(glob_warnings)
        counters["glob_error_states"] += bool(glob_errors)
        counters["missing_target_states"] += bool(missing)
        # DRAINED
        if bool(rc & DRAINED) != bool(end.draining):
            vio("DRAINED bit does not match the scheduler state", f"{what}: rc={rc} draining={end.draining}")
        # FAILED
        if end.draining:
            expect_failed = bool(failed)
        else:
            other_wrong = bool(failed) or bool(pending_required) or bool(missing)
            expect_failed = bool(failed) or (not other_wrong and bool(glob_errors))
            expect_warning = bool(missing) or (not other_wrong and bool(glob_warnings))
            if bool(rc & WARNING) != expect_warning:
                vio("WARNING bit does not match the final state",
                    f"{what}: rc={rc} missing targets={missing[:3]} unjustified glob matches={glob_warnings[:3]}")
            if rc & WARNING:
                counters["rc_warning"] += 1
        if bool(rc & FAILED) != expect_failed:
            vio("FAILED bit does not match the final state",
                f"{what}: rc={rc} failed steps={lab(failed)} glob matches on built files={glob_errors[:3]} "
                f"draining={end.draining}")
        # PENDING
        expect_pending = (not end.draining) and bool(pending_required)
        if bool(rc & PENDING) != expect_pending:
            vio("PENDING bit does not match the final state",
                f"{what}: rc={rc} pending required steps={lab(pending_required)} draining={end.draining}")
        # zero
        if rc == 0:
            if not_done:
                vio("exit status zero although a required step did not succeed",
                    f"{what}: {lab(not_done)}")
            if missing or glob_warnings or glob_errors:
                vio("exit status zero although something questionable was found",
                    f"{what}: missing targets={missing[:3]} glob matches={(glob_warnings + glob_errors)[:3]}")
        # summary
        for summary, totals, tables, threshold in end.summaries:
            counters["summaries_checked"] += 1
            want = {i for i in pending_required}
            if tables is not None:
                universe, attributed = tables
                if universe != want:
                    vio("pending summary covers another set of steps than the pending required steps",
                        f"{what}: only summary={lab(sorted(universe - want))} only definition={lab(sorted(want - universe))}")
                ids = [a[0] for a in attributed]
                if len(ids) != len(set(ids)) or not set(ids) <= universe:
                    vio("pending step attributed to more than one cause or unknown step attributed",
                        f"{what}: {len(ids)} rows, {len(set(ids))} steps")
                if summary.cyclic.nblocked != len(universe - set(ids)):
                    vio("cyclic bucket does not hold exactly the unattributed pending steps",
                        f"{what}: cyclic={summary.cyclic.nblocked} unattributed={len(universe - set(ids))}")
            if summary.ntotal != len(want):
                vio("pending total differs from the number of pending required steps",
                    f"{what}: ntotal={summary.ntotal} definition={len(want)} {lab(sorted(want))}")
            if summary.ntotal and sum(totals.values()) + summary.cyclic.nblocked != summary.ntotal:
                vio("attributed counts do not add up to the total",
                    f"{what}: {totals} + cyclic {summary.cyclic.nblocked} != {summary.ntotal}")
            sentence = [w for w in warnings if "remained pending" in w]
            if summary.ntotal and sentence != [f"{summary.ntotal} step(s) remained pending."]:
                vio("reported sentence does not carry the total", f"{what}: {sentence} ntotal={summary.ntotal}")
            if summary.runnable.nblocked and not end.draining:
                vio("summary lists runnable steps although the build phase was not drained",
                    f"{what}: {summary.runnable.nblocked} e.g. {summary.runnable.example}")
            for name in ("failed", "cyclic", "deferred", "other", "runnable"):
                counters["bucket_" + name] += getattr(summary, name).nblocked > 0
            counters["bucket_inputs"] += len(summary.inputs) > 0
            counters["bucket_resources"] += len(summary.resources) > 0
            bucket = (summary.failed.nblocked > 0, summary.cyclic.nblocked > 0, summary.deferred.nblocked > 0,
                      summary.other.nblocked > 0, len(summary.inputs) > 0, len(summary.resources) > 0)
            classes.add(repr((rc, bool(end.draining), bool(failed), bool(pending_required), bucket)))
        if rc != 0 and not end.summaries:
            classes.add(repr((rc, bool(end.draining), bool(failed), bool(pending_required), None)))

    nproj = 4 if case.get("scenario") == "orphaned_failed_step" else 1 if "scenario" in case else 3
    for h in range(nproj):
        sub = f"p{h}"
        os.makedirs(sub)
        cwd = os.getcwd()
        os.chdir(sub)
        try:
            if "scenario" in case:
                spec, phases, cfg0 = SCENARIOS[case["scenario"]]()
                cfgs = [cfg0] * (len(phases) + 1)
            else:
                spec = gen.gen_project(rng, prob={"res": 0.4})
                spec = c10.add_hostility(rng, spec)
                if rng.random() < 0.5:
                    spec = c10.add_hostility(rng, spec)
                if rng.random() < 0.25:
                    add_cycle(rng, spec)
                phases = gen.gen_history(rng, spec, nphase=rng.randint(0, 2), breaks=0.2)
                cfgs = [c10.hostile_cfg(rng) for _ in range(len(phases) + 1)]
                outs = sorted(gen.declared_outputs(spec))
                r = rng.random()
                if r < 0.2 and outs:
                    cfgs[-1] = {**cfgs[-1], "targets": [rng.choice(outs)]}
                elif r < 0.3:
                    cfgs[-1] = {**cfgs[-1], "target_dirs": [rng.choice(["out/", "logs/", "nothing/"])]}
                elif r < 0.4 and len(cfgs) > 1:
                    # a target that is a static file: invalid on a resumed database
                    cfgs[-1] = {**cfgs[-1], "targets": [sorted(spec["sources"])[0]]}
            witness.update({"spec": spec, "configs": cfgs, "phases": [p["edits"] for p in phases]})
            files = gen.render(spec)
            for k, cur in enumerate([spec] + [p["spec"] for p in phases]):
                if k:
                    files = gen.render(cur, previous=files)
                cfg = cfgs[k]
                end = EndMonitor()
                mode = rng.choice(["free", "jitter", "serial"])
                ctl = H.Controller(mode, rng.randrange(1 << 30))
                if mode == "serial" and rng.random() < 0.3 and not cfg.get("no_drain"):
                    # drain at a random gate
                    state = {"left": rng.randint(1, 6)}

                    def drain_hook(info, state=state, ctl=ctl):
                        state["left"] -= 1
                        if state["left"] == 0 and ctl.build.handler is not None:
                            ctl.build.handler.scheduler.draining = True
                            counters["drains_injected"] += 1
                    ctl.hooks.append(drain_hook)
                b = H.run_build(cfg, ctl=ctl, monitors=[end], env=dict(cur.get("env", {})), timeout=60)
                check(b, end, cfg, f"{sub} build {k} ({mode}) cfg={cfg}")
        finally:
            os.chdir(cwd)
            shutil.rmtree(sub, ignore_errors=True)
    return {
        "status": "violation" if violations else "held",
        "violations": violations,
        "counters": counters,
        "nontrivial": sorted(classes),
        "sets": {"outcome_classes": sorted(classes)},
        "nontrivial_many": True,
        "sample": {"case": case["id"], "classes": sorted(classes)[:3]},
    }
