"""C17: named glob matching is consistent with the file system and with itself.

Executions: the real `NamedGlob` on real temporary directory trees.
Oracles (A = pattern in anonymous form, N = the same pattern with some `*` tokens replaced by
named wildcards, S = a pattern in which a run of tokens is replaced by `${*n}` + subs):
  matcher   files() after glob() == { existing path : the pattern's own matcher accepts it }
  stdglob   for patterns without repeated names: files() == glob.glob(A, recursive, hidden)
            (directories with a trailing separator)
  rename    files(N) == files(A); files(S) == files(A)
  repeat    a pattern with a repeated name matches p iff some substring v makes the pattern with
            the name replaced by the literal v match p (brute force over substrings)
  update    will_change(tree1 - tree2, tree2 - tree1) == fresh scan of tree2
            (`None` exactly when nothing changed)
"""

from __future__ import annotations

import glob as stdglob
import os
import random
import re
import shutil

PROPERTY = "C17"
LEVEL = "exploration"
RULE = (
    "distinct (pattern shape, tree) cases with at least one existing path matched by the "
    "pattern; pattern shape = the pattern with literals kept"
)
TIMEOUT = 300
REQUIRED_COUNTERS = ["matcher_checks", "stdglob_checks", "rename_checks", "repeat_checks",
                     "update_checks", "update_changed", "update_none"]
ASSUMPTIONS = [
    "file names avoid glob meta characters, so literal substitution needs no escaping",
    "patterns are normalised the way api.py normalises them (no '.' or empty components)",
    "`**` only as a complete path component, never two adjacent `*` tokens in anonymous form",
]

NAMES = ["a", "b", "ab", "ba", "a.b", ".a", ".b", "b1", "a_b", "c", "aa", "abab", "a-a"]
LITS = ["a", "b", ".", "ab", "1", "_", "c", "-"]

DIR_MECH = "directory not matched by a pattern that does not end in `*`"


NEG_MECH = "negated character class matches the path separator"


def patched_matcher(pattern, subs=None):
    """The pattern's matcher with every negated class additionally excluding the separator.

    Used only to *classify* a discrepancy: when it disappears under this matcher, the
    discrepancy is the listed finding NEG_MECH and nothing else.
    """
    from stepup.core.nglob import convert_nglob_to_regex

    regex = convert_nglob_to_regex(pattern, dict(subs or {}))
    regex = re.sub(r"\[\^(?!/)", "[^/", regex)
    return re.compile(regex)


BACKREF_MECH = ("trailing back-reference to an empty capture accepts a path that ends in a "
                "separator (empty last component)")


def ends_in_backreference(pattern):
    """The pattern ends with a named wildcard whose name already occurred before."""
    m = re.search(r"\$\{\*([a-zA-Z0-9_]+)\}$", pattern)
    return m is not None and pattern.count("${*" + m.group(1) + "}") >= 2


def backref_matcher(pattern, subs=None, neg=False):
    """The pattern's matcher, additionally refusing an empty last component.

    Used only to *classify* a discrepancy as the listed finding BACKREF_MECH.
    """
    from stepup.core.nglob import convert_nglob_to_regex

    regex = convert_nglob_to_regex(pattern, dict(subs or {}))
    if neg:
        regex = re.sub(r"\[\^(?!/)", "[^/", regex)
    return re.compile(regex + r"(?<!/)")


def has_negated_class(pattern, subs=None):
    return "[!" in pattern or any("[!" in v for v in (subs or {}).values())


def gen_cases(tier, seed):
    ncase, npat = (64, 200) if tier == "quick" else (512, 2000)
    return [{"id": f"c17-{seed}-{i}", "seed": seed * 7919 + i, "npat": npat} for i in range(ncase)]


# ---------------------------------------------------------------------------------------------
# Trees
# ---------------------------------------------------------------------------------------------


def make_tree(rng, root):
    """Create a random tree below `root`; return nothing (use `scan`)."""
    os.makedirs(root, exist_ok=True)

    def fill(base, depth):
        for name in rng.sample(NAMES, rng.choice([1, 2, 3, 4])):
            path = os.path.join(base, name)
            if os.path.lexists(path):
                continue
            if depth < 3 and rng.random() < 0.4:
                os.mkdir(path)
                if rng.random() < 0.8:
                    fill(path, depth + 1)
            else:
                with open(path, "w") as fh:
                    fh.write("x")

    fill(root, 0)


def mutate_tree(rng, root):
    """Apply a few random changes: add/delete files, add/delete directories."""
    for _ in range(rng.choice([0, 1, 2, 3, 5])):
        dirs = [root] + [os.path.join(dp, d) for dp, dns, _ in os.walk(root) for d in dns]
        files = [os.path.join(dp, f) for dp, _, fns in os.walk(root) for f in fns]
        op = rng.choice(["addfile", "addfile", "delfile", "delfile", "adddir", "rmtree", "file2dir"])
        if op == "addfile":
            path = os.path.join(rng.choice(dirs), rng.choice(NAMES))
            if not os.path.lexists(path):
                open(path, "w").close()
        elif op == "delfile" and files:
            os.remove(rng.choice(files))
        elif op == "adddir":
            path = os.path.join(rng.choice(dirs), rng.choice(NAMES))
            if not os.path.lexists(path):
                os.mkdir(path)
                if rng.random() < 0.5:
                    open(os.path.join(path, rng.choice(NAMES)), "w").close()
        elif op == "rmtree" and len(dirs) > 1:
            shutil.rmtree(rng.choice(dirs[1:]), ignore_errors=True)
        elif op == "file2dir" and files:
            path = rng.choice(files)
            os.remove(path)
            os.mkdir(path)


def scan(root):
    """All existing paths relative to root; directories with a trailing separator."""
    paths = set()
    for dp, dns, fns in os.walk(root):
        rel = os.path.relpath(dp, root)
        prefix = "" if rel == "." else rel + "/"
        for d in dns:
            paths.add(prefix + d + "/")
        for f in fns:
            paths.add(prefix + f)
    return paths


# ---------------------------------------------------------------------------------------------
# Patterns: token lists per component
# ---------------------------------------------------------------------------------------------


def gen_component(rng):
    if rng.random() < 0.15:
        return ["**"]
    toks = []
    for _ in range(rng.choice([1, 1, 2, 2, 3, 4])):
        kind = rng.choice(["lit", "lit", "star", "star", "q", "cls", "ncls"])
        if kind == "star":
            if toks and toks[-1] == "*":
                continue
            toks.append("*")
        elif kind == "lit":
            toks.append(("lit", rng.choice(LITS)))
        elif kind == "q":
            toks.append("?")
        elif kind == "cls":
            toks.append(rng.choice(["[ab]", "[a-c]", "[.a]", "[b1]"]))
        else:
            toks.append(rng.choice(["[!a]", "[!ab]", "[!.]"]))
    if not toks:
        toks = ["*"]
    # A component that is literally "." or ".." or empty is not produced by api.py.
    text = "".join(t[1] if isinstance(t, tuple) else t for t in toks)
    if text in (".", ".."):
        toks = [("lit", "a")]
    return toks


def gen_pattern(rng):
    comps = [gen_component(rng) for _ in range(rng.choice([1, 1, 2, 2, 3]))]
    # No two adjacent `**` components (api-normalised patterns may have them, but they are
    # merged by the converters; keep the generator simple and canonical).
    out = []
    for c in comps:
        if c == ["**"] and out and out[-1] == ["**"]:
            continue
        out.append(c)
    trailing = rng.random() < 0.15 and out[-1] != ["**"]
    return out, trailing


def directed_pattern(rng, existing):
    """A pattern derived from an existing path, so that it is likely to match something."""
    path = rng.choice(sorted(existing))
    names = path.rstrip("/").split("/")
    comps = []
    for name in names:
        r = rng.random()
        if r < 0.35:
            comps.append([("lit", name)])
        elif r < 0.55:
            comps.append(["*"])
        elif r < 0.7:
            k = rng.randrange(len(name) + 1)
            comps.append(([("lit", name[:k])] if k else []) + ["*"])
        elif r < 0.8:
            k = rng.randrange(len(name))
            toks = []
            if name[:k]:
                toks.append(("lit", name[:k]))
            toks.append(rng.choice(["?", "[ab.]", "[!ab]", "[a-c]"]))
            if name[k + 1:]:
                toks.append(("lit", name[k + 1:]))
            comps.append(toks)
        elif r < 0.9:
            k = rng.randrange(len(name) + 1)
            comps.append(["*"] + ([("lit", name[k:])] if name[k:] else [("lit", name[-1])]))
        else:
            comps.append(["**"])
    if rng.random() < 0.25:
        comps.insert(rng.randrange(len(comps) + 1), ["**"])
    tail = rng.random()
    if tail < 0.15:
        comps += [["**"], ["*"]]
    elif tail < 0.25:
        comps += [["**"]]
    elif tail < 0.35:
        comps += [["*"]]
    out = []
    for c in comps:
        if c == ["**"] and out and out[-1] == ["**"]:
            continue
        out.append(c)
    trailing = rng.random() < 0.15 and out[-1] != ["**"]
    return out, trailing


def render(comps, trailing, named=None, subs_runs=None):
    """Render the token lists as text.

    named: {(icomp, itok): name} replaces that `*` token by `${*name}`.
    subs_runs: {(icomp, istart, iend): name} replaces the run of tokens by `${*name}`;
    the returned subs maps the name to the text of the run.
    """
    named = named or {}
    subs_runs = subs_runs or {}
    subs = {}
    parts = []
    for ic, comp in enumerate(comps):
        text = ""
        it = 0
        while it < len(comp):
            run = next(((s, e, n) for (c, s, e), n in subs_runs.items() if c == ic and s == it), None)
            if run is not None:
                s, e, n = run
                subs[n] = "".join(t[1] if isinstance(t, tuple) else t for t in comp[s:e])
                text += "${*" + n + "}"
                it = e
                continue
            tok = comp[it]
            if (ic, it) in named:
                text += "${*" + named[(ic, it)] + "}"
            else:
                text += tok[1] if isinstance(tok, tuple) else tok
            it += 1
        parts.append(text)
    return "/".join(parts) + ("/" if trailing else ""), subs


def shape(comps, trailing):
    return render(comps, trailing)[0]


# ---------------------------------------------------------------------------------------------
# The case
# ---------------------------------------------------------------------------------------------


def std_reference(pattern):
    res = set()
    for path in stdglob.glob(pattern, recursive=True, include_hidden=True):
        if not os.path.lexists(path):
            # CPython yields the directory in front of a trailing `**` unchecked.
            continue
        if os.path.isdir(path) and not path.endswith("/"):
            path += "/"
        res.add(path)
    return res


def run_case(case):
    from stepup.core.nglob import NamedGlob, convert_nglob_to_regex

    rng = random.Random(case["seed"])
    counters = dict.fromkeys(
        ["evaluations", "patterns", "matcher_checks", "stdglob_checks", "rename_checks",
         "subs_checks", "repeat_checks", "repeat_patterns_with_matches", "update_checks",
         "update_changed", "update_none", "paths_matched", "patterns_with_matches",
         "convert_errors"], 0)
    violations = []
    nontrivial = []
    seen_shapes = set()

    def vio(mechanism, message, witness):
        if sum(1 for v in violations if v["mechanism"] == mechanism) < 3:
            violations.append({"mechanism": mechanism, "message": message, "witness": witness})

    def files_of(pattern, subs=None):
        ng = NamedGlob(pattern, dict(subs or {}))
        ng.glob()
        return ng, {str(p) for p in ng.files()}

    ntree = 0
    while counters["patterns"] < case["npat"]:
        ntree += 1
        root = f"t{ntree}"
        make_tree(rng, root)
        cwd = os.getcwd()
        os.chdir(root)
        try:
            existing = scan(".")
            tree_desc = sorted(existing)
            for _ in range(10):
                if existing and rng.random() < 0.5:
                    comps, trailing = directed_pattern(rng, existing)
                else:
                    comps, trailing = gen_pattern(rng)
                anon, _ = render(comps, trailing)
                counters["patterns"] += 1
                try:
                    ng_a, files_a = files_of(anon)
                except (ValueError, re.error) as exc:
                    counters["convert_errors"] += 1
                    continue
                witness = {"pattern": anon, "tree": tree_desc}
                # matcher: recorded == accepted by the pattern's own matcher
                accepted = {p for p in existing if ng_a._match_values(p) is not None}
                counters["matcher_checks"] += 1
                counters["evaluations"] += 1
                if files_a != accepted:
                    mech = "recorded matches differ from what the pattern's matcher accepts"
                    if has_negated_class(anon):
                        rx = patched_matcher(anon)
                        # Every path of the discrepancy is accepted by the real matcher only
                        # because a negated class consumed a separator.
                        if all(rx.fullmatch(p) is None for p in files_a ^ accepted):
                            mech = NEG_MECH
                    vio(mech,
                        f"pattern {anon!r}: recorded-accepted={sorted(files_a - accepted)} "
                        f"accepted-recorded={sorted(accepted - files_a)}", witness)
                # stdglob
                ref = std_reference(anon)
                counters["stdglob_checks"] += 1
                counters["evaluations"] += 1
                if files_a != ref:
                    missing, extra = ref - files_a, files_a - ref
                    ends_star = anon.endswith("*")
                    if not extra and missing and all(p.endswith("/") for p in missing) \
                            and not ends_star and not trailing:
                        mech = DIR_MECH
                    else:
                        mech = "match set differs from the standard recursive glob"
                    vio(mech, f"pattern {anon!r}: glob.glob-only={sorted(missing)} "
                        f"NamedGlob-only={sorted(extra)}", witness)
                if files_a:
                    counters["patterns_with_matches"] += 1
                    counters["paths_matched"] += len(files_a)
                    key = shape(comps, trailing)
                    if key not in seen_shapes and len(nontrivial) < 600:
                        seen_shapes.add(key)
                        nontrivial.append(f"{key}|{hash(tuple(tree_desc)) & 0xffffff:x}")
                # rename: some `*` tokens become named wildcards
                stars = [(ic, it) for ic, comp in enumerate(comps)
                         for it, tok in enumerate(comp) if tok == "*"]
                if stars:
                    chosen = rng.sample(stars, rng.randint(1, len(stars)))
                    named = {pos: f"n{k}" for k, pos in enumerate(chosen)}
                    npat, _ = render(comps, trailing, named=named)
                    _, files_n = files_of(npat)
                    counters["rename_checks"] += 1
                    counters["evaluations"] += 1
                    if files_n != files_a:
                        vio("replacing `*` by a named wildcard changes the matches",
                            f"{anon!r} -> {sorted(files_a)} but {npat!r} -> {sorted(files_n)}",
                            {**witness, "named": npat})
                # subs: a run of tokens inside one component becomes ${*s} with a substitution
                cands = [(ic, comp) for ic, comp in enumerate(comps) if comp != ["**"]]
                if cands:
                    ic, comp = rng.choice(cands)
                    s = rng.randrange(len(comp))
                    e = rng.randint(s + 1, len(comp))
                    spat, subs = render(comps, trailing, subs_runs={(ic, s, e): "s"})
                    try:
                        _, files_s = files_of(spat, subs)
                    except (ValueError, re.error):
                        counters["convert_errors"] += 1
                    else:
                        counters["subs_checks"] += 1
                        counters["evaluations"] += 1
                        if files_s != files_a:
                            mech = "a named wildcard with a substitution differs from the inlined pattern"
                            lost = files_a - files_s
                            if not (files_s - files_a) and all(p.endswith("/") for p in lost) \
                                    and not spat.endswith(("*", "/")):
                                mech = DIR_MECH
                            vio(mech,
                                f"{anon!r} -> {sorted(files_a)} but {spat!r} {subs} -> {sorted(files_s)}",
                                {**witness, "named": spat, "subs": subs})
                # repeat: two `*` tokens get the same name
                template = None
                if rng.random() < 0.35:
                    template = rng.choice(["${*r}/${*r}", "${*r}${*r}", "${*r}?${*r}", "*/${*r}/${*r}",
                                           "${*r}/*/${*r}", "${*r}[._-]${*r}", "**/${*r}/${*r}*",
                                           "${*r}/**/${*r}", "${*r}*/${*r}", "?${*r}/${*r}/"])
                if len(stars) >= 2 or template:
                    if template:
                        rpat = template
                        files_a = files_of(rpat.replace("${*r}", "*") if "${*r}${*r}" not in rpat
                                           else rpat.replace("${*r}${*r}", "*"))[1]
                        trailing = rpat.endswith("/")
                    else:
                        two = rng.sample(stars, 2)
                        rpat, _ = render(comps, trailing, named={two[0]: "r", two[1]: "r"})
                    ng_r, files_r = files_of(rpat)
                    expected = set()
                    ends_named = rpat.endswith("${*r}")
                    for p in existing:
                        body = p.rstrip("/")
                        subsrs = {body[i:j] for i in range(len(body) + 1)
                                  for j in range(i, len(body) + 1) if "/" not in body[i:j]}
                        for v in subsrs:
                            lit = rpat.replace("${*r}", v)
                            if lit == "":
                                continue
                            try:
                                # Negated classes never match a separator in this reference.
                                rx = patched_matcher(lit)
                            except (ValueError, re.error):
                                continue
                            if rx.fullmatch(p) or (ends_named and p.endswith("/") and v != ""
                                                   and rx.fullmatch(p[:-1])):
                                expected.add(p)
                                break
                    counters["repeat_checks"] += 1
                    counters["evaluations"] += 1
                    if files_r:
                        counters["repeat_patterns_with_matches"] += 1
                    # Unequal captures must never match; every capture group is consistent.
                    for values, paths in ng_r.results.items():
                        if len(values) != 1:
                            vio("repeated name yields more than one capture", f"{rpat!r}", witness)
                    if not files_r <= files_a:
                        vio("a repeated name matches more than the anonymous pattern",
                            f"{rpat!r}: {sorted(files_r - files_a)}", {**witness, "named": rpat})
                    # Whether a trailing back-reference matches a *directory* is not stated by
                    # the property (it only says that a repeated name matches equal substrings),
                    # so directories are compared only for patterns with a trailing separator.
                    if has_negated_class(rpat):
                        rxp = patched_matcher(rpat)
                        neg_only = {p for p in files_r if rxp.fullmatch(p) is None}
                        if neg_only:
                            vio(NEG_MECH, f"{rpat!r} records {sorted(neg_only)}", witness)
                            files_r -= neg_only
                    if not trailing:
                        files_r = {p for p in files_r if not p.endswith("/")}
                        expected = {p for p in expected if not p.endswith("/")}
                    if files_r != expected:
                        vio("repeated name: matches differ from literal substitution of equal substrings",
                            f"{rpat!r}: NamedGlob-only={sorted(files_r - expected)} "
                            f"expected-only={sorted(expected - files_r)}", {**witness, "named": rpat})
            # update: mutate the tree, compare will_change with a fresh scan
            pats = []
            for _ in range(6):
                if existing and rng.random() < 0.5:
                    comps, trailing = directed_pattern(rng, existing)
                else:
                    comps, trailing = gen_pattern(rng)
                stars = [(ic, it) for ic, comp in enumerate(comps)
                         for it, tok in enumerate(comp) if tok == "*"]
                named = {}
                if stars and rng.random() < 0.6:
                    chosen = rng.sample(stars, rng.randint(1, len(stars)))
                    names = ["n0", "n1", "n0"] if rng.random() < 0.3 else ["n0", "n1", "n2", "n3", "n4"]
                    named = {pos: names[k % len(names)] for k, pos in enumerate(chosen)}
                pats.append(render(comps, trailing, named=named)[0])
            before = {}
            for pat in pats:
                try:
                    before[pat] = files_of(pat)[0]
                except (ValueError, re.error):
                    counters["convert_errors"] += 1
            mutate_tree(rng, ".")
            after_paths = scan(".")
            deleted, added = existing - after_paths, after_paths - existing
            for pat, ng1 in before.items():
                ng2, files2 = files_of(pat)
                variants = [(sorted(deleted), sorted(added))]
                # Paths that did not change at all may be reported too (a modified file).
                common = sorted(existing & after_paths)
                if common:
                    variants.append((sorted(deleted), sorted(added | set(rng.sample(common, 1)))))
                for dele, add in variants:
                    evolved = ng1.will_change(dele, add)
                    counters["update_checks"] += 1
                    counters["evaluations"] += 1
                    same = ng2.results == ng1.results
                    if same:
                        counters["update_none"] += 1
                    else:
                        counters["update_changed"] += 1
                    w = {"pattern": pat, "tree1": tree_desc, "tree2": sorted(after_paths)}
                    if ends_in_backreference(pat) and (same != (evolved is None) or (
                            evolved is not None and evolved.results != ng2.results)):
                        rxb = backref_matcher(pat, neg=has_negated_class(pat))
                        ev_files = {str(p) for p in (evolved or ng1).files()}
                        if all(rxb.fullmatch(p) is None for p in ev_files ^ files2):
                            vio(BACKREF_MECH, f"{pat!r} deleted={dele} added={add}: updated="
                                f"{sorted(ev_files)} scan={sorted(files2)}", w)
                            continue
                    if has_negated_class(pat) and (same != (evolved is None) or (
                            evolved is not None and evolved.results != ng2.results)):
                        # Is the disagreement explained by the listed finding alone?
                        rx = patched_matcher(pat)
                        ev_files = {str(p) for p in (evolved or ng1).files()}
                        if all(rx.fullmatch(p) is None for p in ev_files ^ files2):
                            vio(NEG_MECH, f"{pat!r} deleted={dele} added={add}: updated="
                                f"{sorted(ev_files)} scan={sorted(files2)}", w)
                            continue
                    if same and evolved is not None:
                        vio("will_change reports a change although a fresh scan is identical",
                            f"{pat!r} deleted={dele} added={add}", w)
                    elif not same and evolved is None:
                        vio("will_change reports no change although a fresh scan differs",
                            f"{pat!r} deleted={dele} added={add}: "
                            f"{sorted(map(str, ng1.files()))} -> {sorted(files2)}", w)
                    elif not same and evolved.results != ng2.results:
                        vio("will_change result differs from a fresh scan",
                            f"{pat!r} deleted={dele} added={add}: evolved="
                            f"{sorted(map(str, evolved.files()))} scan={sorted(files2)}", w)
        finally:
            os.chdir(cwd)
            shutil.rmtree(root, ignore_errors=True)

    return {
        "status": "violation" if violations else "held",
        "violations": violations,
        "counters": counters,
        "nontrivial": nontrivial,
        "nontrivial_many": True,
        "sample": {"patterns": counters["patterns"], "example_shapes": sorted(seen_shapes)[:5]},
    }
