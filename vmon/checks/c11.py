"""C11: exactly the needed steps are executed.

Reference: the definitional implied need (DESIGN Appendix A), evaluated independently in Python
on the final graph: without targets every step whose implied need exceeds OPTIONAL is required;
with targets, every step whose implied need exceeds DEFAULT (PLAN steps, producers of the named
files, DEFAULT producers of outputs under the named directories, and whatever these require
transitively, amended inputs included).
  scratch     from scratch, with and without targets: executed commands == required set
  resumed     a second run on the same database with another target set: every executed command
              is required in the final graph; every required step is SUCCEEDED at a successful end
  reverted    after a successful unrestricted build, an optional step that is not required is
              PENDING, its regular outputs are PLANNED and neither they nor its volatile outputs
              are on disk
  warnings    "target(s) are not produced" is reported exactly for the targets that are not a
              regular output of an active step
"""

from __future__ import annotations

import json
import os
import random
import shutil

from vmon import commitmon, gen, harness as H, invariants as I
from vmon.checks import c04

PROPERTY = "C11"
LEVEL = "exploration"
RULE = (
    "distinct (project shape, target set kind) builds in which at least one OPTIONAL step "
    "existed and the required set differed from the set of all steps"
)
TIMEOUT = 600
REQUIRED_COUNTERS = ["scratch_builds", "target_builds", "resumed_builds", "optional_required",
                     "optional_not_required", "reverted_checked", "target_warnings_checked"]
ASSUMPTIONS = ["valid generator profile (every required step can succeed); mode A"]
RESOURCES = "cpu:2,gpu:2"


def gen_cases(tier, seed):
    n = 40 if tier == "quick" else 800
    return [{"id": f"c11-{seed}-{i}", "seed": seed * 2749 + i} for i in range(n)]


def required_set(snap, targets=(), target_dirs=()):
    snap = dict(snap)
    snap["target_path"] = set(targets)
    snap["target_dir"] = {d: None for d in target_dirs}
    model = I.Model(snap)
    req = {snap["node"][i][1] for i in model.steps if model.attached(i) and model.implied(i) > model.threshold}
    allsteps = {snap["node"][i][1]: model.steps[i] for i in model.steps if model.attached(i)}
    return req, allsteps, model


def executed(build):
    out = []
    for e in build.events:
        if e["type"] == "cmd_start" and e["step"] not in out:
            out.append(e["step"])
    return out


class NeedAtDispatch(commitmon.CommitMonitor):
    """Records, for every step whose command is dispatched, whether it was required by the
    definitions in the tables of the dispatching commit (a step can stop being required later in
    the same build, e.g. when the step that defined its consumer is made pending)."""

    def __init__(self):
        super().__init__(checkers=[self.checker])
        self.needed = {}

    def checker(self, mon, prev, snap, tx):
        if snap is None or prev is None or not tx.is_pop:
            return
        for i, st in snap["step"].items():
            old = prev["step"].get(i)
            if old is not None and old["state"] == I.P and st["state"] == I.R:
                model = I.Model(snap, override_state={i: I.P})
                lab = snap["node"][i][1]
                self.needed[lab] = self.needed.get(lab, False) or model.implied(i) > model.threshold


def run_case(case):
    rng = random.Random(case["seed"])
    counters = dict.fromkeys(["evaluations", "skipped_unsuccessful", "history_builds",
                              "needed_only_when_dispatched"] + REQUIRED_COUNTERS, 0)
    violations = []
    nontrivial = []

    def vio(mechanism, message, witness):
        if sum(1 for v in violations if v["mechanism"] == mechanism) < 2:
            violations.append({"mechanism": mechanism, "message": message, "witness": witness})

    def build_with_monitor(cfg, env):
        mon = NeedAtDispatch()
        b = H.run_build(cfg, monitors=[mon], env=env)
        b.needed_at_dispatch = mon.needed
        return b

    def check_build(label, build, cfg, witness, fresh):
        targets = list(cfg.get("targets", []))
        tdirs = list(cfg.get("target_dirs", []))
        snap = c04.db_snapshot()
        req, allsteps, model = required_set(snap, targets, tdirs)
        ex = executed(build)
        rc = build.returncode.value if build.returncode is not None else None
        ok = build.error is None and rc is not None and not (rc & (4 | 16 | 32))  # FAILED PENDING DRAINED
        nopt = sum(1 for st in allsteps.values() if st["need"] == I.OPTIONAL)
        counters["optional_required"] += sum(1 for l, st in allsteps.items() if st["need"] == I.OPTIONAL and l in req)
        counters["optional_not_required"] += sum(1 for l, st in allsteps.items() if st["need"] == I.OPTIONAL and l not in req)
        if not ok:
            counters["skipped_unsuccessful"] += 1
            return
        counters["evaluations"] += 1
        at_dispatch = getattr(build, "needed_at_dispatch", {})

        def really_extra(labels):
            out = []
            for lab in labels:
                if at_dispatch.get(lab):
                    # required when its command was dispatched, no longer required in the end
                    counters["needed_only_when_dispatched"] += 1
                else:
                    out.append(lab)
            return out

        if fresh:
            if set(ex) != req and (really_extra(set(ex) - req) or req - set(ex)):
                extra = sorted(really_extra(set(ex) - req))
                missing = sorted(req - set(ex))
                mech = "step executed although it is not needed" if extra else \
                    "needed step was not executed"
                vio(mech, f"{label}: targets={targets + tdirs} executed-not-needed={[s[:90] for s in extra]} "
                    f"needed-not-executed={[s[:90] for s in missing]}", witness)
        else:
            extra = sorted(really_extra(set(ex) - req))
            if extra:
                vio("step executed although it is not needed",
                    f"{label} (resumed): targets={targets + tdirs} executed-not-needed={[s[:90] for s in extra]}",
                    witness)
        not_done = sorted(l for l in req if allsteps[l]["state"] != I.S)
        if not_done:
            vio("needed step is not SUCCEEDED after a successful build",
                f"{label}: targets={targets + tdirs} {[s[:90] for s in not_done]}", witness)
        if nopt and req != set(allsteps):
            nontrivial.append(json.dumps([len(allsteps), nopt, bool(targets), bool(tdirs), fresh]))
        # target warnings
        if targets or tdirs:
            counters["target_warnings_checked"] += 1
            produced = set()
            for i, (state, _h) in snap["file"].items():
                kind, lab, creator, detached = snap["node"][i]
                if not detached and state in (I.PLANNED, I.BUILT, I.OUTDATED) and creator in snap["step"]:
                    produced.add(lab)
            expect_missing = sorted(t for t in targets if t not in produced)
            warned = [str(m) for m in build.tagged("WARNING") if "not produced by any step" in str(m)]
            got_missing = sorted(warned[0].split(": ", 1)[1].split(", ")) if warned else []
            if got_missing != expect_missing:
                vio("missing or spurious 'target not produced' warning",
                    f"{label}: expected {expect_missing}, reported {got_missing}", witness)
            expect_dirs = sorted(d for d in tdirs if not any(p.startswith(d) for p in produced))
            warned = [str(m) for m in build.tagged("WARNING") if "directory target(s) matched no regular output" in str(m)]
            got_dirs = sorted(warned[0].split(": ", 1)[1].split(", ")) if warned else []
            if got_dirs != expect_dirs:
                vio("missing or spurious 'directory target matched nothing' warning",
                    f"{label}: expected {expect_dirs}, reported {got_dirs}", witness)
        elif rc == 0 or rc == 8:
            # unrestricted successful build with cleaning: optional steps that are not required
            for i, st in model.steps.items():
                if not model.attached(i) or st["need"] != I.OPTIONAL or model.implied(i) > I.OPTIONAL:
                    continue
                counters["reverted_checked"] += 1
                lab = snap["node"][i][1]
                if st["state"] != I.P:
                    vio("optional step that is not needed is not reverted to PENDING",
                        f"{label}: {lab[:100]} is {I.STATE_NAME[st['state']]}", witness)
                for _idep, f in model.out_edges.get(i, ()):
                    frow = snap["file"].get(f)
                    if frow is None or snap["node"][f][3]:
                        continue
                    path = snap["node"][f][1]
                    if frow[0] not in (I.PLANNED, I.VOLATILE):
                        vio("output of an optional step that is not needed is not reverted",
                            f"{label}: {path} is {I.FSTATE_NAME[frow[0]]}", witness)
                    if os.path.exists(path):
                        vio("output of an optional step that is not needed is still on disk",
                            f"{label}: {path}", witness)

    for h in range(3):
        sub = f"p{h}"
        os.makedirs(sub)
        cwd = os.getcwd()
        os.chdir(sub)
        try:
            spec = gen.gen_project(rng, prob={"optional": 0.55, "vol": 0.4})
            witness = {"case": case["id"], "spec": spec}
            outs = sorted(p for st in spec["steps"].values() for p in st["out"])
            env = dict(spec.get("env", {}))
            # 1. from scratch, no targets
            gen.render(spec)
            cfg = {"njob": rng.choice([1, 2, 3]), "resources": RESOURCES}
            b = build_with_monitor(cfg, env)
            counters["scratch_builds"] += 1
            check_build(f"{case['id']}/{sub} scratch", b, cfg, witness, fresh=True)
            # 2. resumed with targets on the same database
            tcfg = dict(cfg)
            kind = rng.choice(["file", "file", "dir", "both", "bogus"])
            if kind in ("file", "both") and outs:
                tcfg["targets"] = rng.sample(outs, min(len(outs), rng.choice([1, 2])))
            if kind in ("dir", "both"):
                tcfg["target_dirs"] = [rng.choice(["out/", "out/moved/", "ou/", "work/", "logs/", "logs/"])]
            if kind == "bogus":
                tcfg["targets"] = ["out/does_not_exist.txt"] + (outs[:1])
            # change something so that steps have work to do
            src = sorted(p for p in spec["sources"] if p.startswith("src/"))
            H.write_file(src[0], open(src[0]).read().replace("v0", "v1") + "x\n")
            b = build_with_monitor(tcfg, env)
            counters["resumed_builds"] += 1
            check_build(f"{case['id']}/{sub} resumed-with-targets", b, tcfg, witness, fresh=False)
            # 3. resumed without targets
            b = build_with_monitor(cfg, env)
            counters["resumed_builds"] += 1
            check_build(f"{case['id']}/{sub} resumed-unrestricted", b, cfg, witness, fresh=False)
            # 3b. an edit history on the same database: plan edits (dropped, re-added, redefined
            # steps, toggled needs) with source changes; what runs must still be what is needed
            cur = json.loads(json.dumps(spec))
            # the source edit above is on disk only: take it over so that render() keeps it
            cur["sources"][src[0]] = open(src[0]).read()
            files = gen.user_files(cur)
            memory = {}
            for k in range(rng.randint(1, 3)):
                edits = []
                for kind_ in rng.sample(["drop_step", "toggle_need", "change_source", "readd_step",
                                         "drop_define", "redefine_step", "change_source"], 3):
                    desc = gen.apply_edit(rng, cur, kind_, memory)
                    if desc is not None:
                        edits.append([kind_, desc])
                files = gen.render(cur, previous=files)
                hw = {"case": case["id"], "spec": spec, "edits": edits, "final": cur}
                b = build_with_monitor(cfg, dict(cur.get("env", {})))
                counters["history_builds"] += 1
                check_build(f"{case['id']}/{sub} after edits {edits}", b, cfg, hw, fresh=False)
            # 4. from scratch with targets
            gen.render(spec, previous=files)
            shutil.rmtree(".stepup", ignore_errors=True)
            shutil.rmtree("out", ignore_errors=True)
            b = build_with_monitor(tcfg, env)
            counters["target_builds"] += 1
            check_build(f"{case['id']}/{sub} scratch-with-targets", b, tcfg, witness, fresh=True)
        finally:
            os.chdir(cwd)
            shutil.rmtree(sub, ignore_errors=True)
    return {
        "status": "violation" if violations else "held",
        "violations": violations,
        "counters": counters,
        "nontrivial": nontrivial,
        "nontrivial_many": True,
        "sample": {"case": case["id"]},
    }
