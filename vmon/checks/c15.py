"""C15: requests that change the workflow are applied atomically.

Workload: a plan defines several concurrently running "actor" steps; each actor issues compound
requests (define_step / amend_step / declare_static / register_glob / hold / release with several
paths each) over the real RPC socket, drawn from a small pool of paths so that collisions, cycles,
glob/product conflicts and forbidden targets are hit on the first, middle or last path of a
request.  Some requests are sent on a connection that is closed without reading the reply; in
"inject" cases an exception is raised at a random statement inside the handler's transaction
(source-free failpoint at the `DBSession._run` boundary).

Oracles
  rollback   right after `DBSession.__aexit__` rolled a transaction back (before any other task
             can run) all tables, persistent and temporary, equal the snapshot of the last commit
  rejected   a request whose handler raised has no committed transaction that wrote anything
  effect     right inside the committing transaction of a request that succeeds, everything it
             asked for is in the tables (step node, every output/volatile/static/tree node with
             the right owner and role, every input edge, the glob row, the hold counter)
  interleave every statement of a transaction is executed by the task that opened it; the
             writing transactions of one request are not separated by a writing transaction of
             another request
  disconnect every request that was sent in full on a connection closed early reaches its handler,
             the handler is not cancelled, and the three oracles above apply to it
"""

from __future__ import annotations

import asyncio
import json
import os
import random
import shutil

from vmon import commitmon, harness as H

PROPERTY = "C15"
LEVEL = "exploration"
RULE = ("distinct (request kind, outcome: applied / rejected with error class / injected failure, "
        "connection kept or dropped, position of the failing path) combinations observed")
TIMEOUT = 600
REQUIRED_COUNTERS = ["requests_seen", "requests_rejected", "rollbacks_compared", "effects_checked",
                     "dropped_sent", "dropped_handled", "concurrent_builds"]
ASSUMPTIONS = ["mode A: simulated steps in the director's process talking over the real Unix socket",
               "request arguments are what api.py can emit (normalised relative paths)"]

MUTATING = ("define_step", "amend_step", "declare_static", "register_glob", "hold_dispatch",
            "release_dispatch")

FILES = ["f1", "f2", "f3", "d/x1", "d/x2", "e/y1"]
OUTS = ["o1", "o2", "o3", "o4", "d/o5", "g/o6"]
TREES = ["d/", "e/"]
PATTERNS = ["f*", "o*", "d/*", "*", "${*n}1"]


def gen_cases(tier, seed):
    n = 48 if tier == "quick" else 1200
    cases = [{"id": f"c15-mix-{seed}-{i}", "seed": seed * 7919 + i, "kind": "mix"} for i in range(n)]
    cases += [{"id": f"c15-inject-{seed}-{i}", "seed": seed * 7919 + 100000 + i, "kind": "inject"}
              for i in range(n // 2)]
    cases += [{"id": f"c15-directed-{k}", "seed": seed, "kind": "directed", "scenario": k}
              for k in DIRECTED]
    return cases


# ---------------------------------------------------------------------------------------------
# request generator
# ---------------------------------------------------------------------------------------------


def make_request(rng, serial):
    kind = rng.choice(["define", "define", "amend", "amend", "static", "glob", "hold", "release"])
    if kind == "define":
        out = rng.sample(OUTS, rng.randint(1, 3))
        rest = [p for p in OUTS if p not in out]
        vol = rng.sample(rest, rng.choice([0, 0, 1]))
        inp = rng.sample(FILES + OUTS, rng.randint(0, 3))
        inp = [p for p in inp if p not in out and p not in vol]
        label = f"do [] #{rng.randrange(6)}"
        need = rng.choice([31, 32, 32])
        return "define_step", [label, sorted(inp), [], sorted(out), sorted(vol), ".", need,
                               rng.choice([{}, {}, {"cpu": 1}]), False, None, None]
    if kind == "amend":
        inp = rng.sample(FILES + OUTS, rng.randint(0, 3))
        out = rng.sample(OUTS, rng.choice([0, 0, 1, 2]))
        vol = rng.sample([p for p in OUTS if p not in out], rng.choice([0, 0, 1]))
        inp = [p for p in inp if p not in out and p not in vol]
        return "amend_step", [sorted(inp), [], sorted(out), sorted(vol)]
    if kind == "static":
        trees = rng.sample(TREES, rng.choice([0, 0, 1]))
        files = rng.sample(FILES + OUTS[:2], rng.randint(1, 3))
        patterns = []
        if rng.random() < 0.3:
            pat = rng.choice(PATTERNS)
            patterns.append((pat, glob_matches(pat)))
        return "declare_static", [sorted(trees), sorted(files), patterns]
    if kind == "glob":
        pat = rng.choice(PATTERNS)
        matches = glob_matches(pat)
        if rng.random() < 0.3:
            matches = sorted(set(matches) | {rng.choice(OUTS)})
        return "register_glob", [pat, {"n": "?"} if "${" in pat else {}, matches]
    if kind == "hold":
        return "hold_dispatch", []
    return "release_dispatch", []


def glob_matches(pat):
    from stepup.core.nglob import NamedGlob

    ng = NamedGlob(pat, {"n": "?"} if "${" in pat else {})
    ng.glob()
    return sorted(str(p) for p in ng.files())


def actor_program(rng, nreq, drop_prob):
    prog = []
    for k in range(nreq):
        name, args = make_request(rng, k)
        if rng.random() < drop_prob:
            prog.append({"a": "drop", "name": name, "args": args,
                         "when": rng.choice(["sent", "sent", "gate", "partial"]),
                         "die": rng.random() < 0.5})
        else:
            prog.append({"a": "raw", "name": name, "args": args})
        if rng.random() < 0.5:
            prog.append({"a": "gate", "name": f"g{k}"})
    return prog


# ---------------------------------------------------------------------------------------------
# monitor
# ---------------------------------------------------------------------------------------------


class RequestMonitor(commitmon.CommitMonitor):
    """Commit monitor plus one record per mutating request handled by the director."""

    current = None
    patched = False

    def __init__(self, inject=None):
        super().__init__(checkers=[self.effect_checker])
        self.keep_tx = True
        self.check_rollback = True
        self.requests = []
        self.by_task = {}
        self.inject = inject        # None or random.Random
        self.injected = 0
        self.effect_findings = 0

    def on_db(self, build, db):
        super().on_db(build, db)
        RequestMonitor.current = self
        self.patch()
        if self.inject is not None:
            self.fail_at = self.maybe_fail

    def on_end(self, build, db):
        super().on_end(build, db)
        RequestMonitor.current = None

    # -- failpoint --------------------------------------------------------------------------------
    def maybe_fail(self, tx, query):
        rec = self.by_task.get(tx.task)
        if rec is None or rec.get("injected") or rec["outcome"] is not None:
            return None
        if tx.nstmt >= rec["fail_stmt"]:
            from stepup.core.exceptions import GraphError
            rec["injected"] = True
            self.injected += 1
            return GraphError(f"injected failure at statement {tx.nstmt}")
        return None

    # -- handler wrappers -------------------------------------------------------------------------
    @classmethod
    def patch(cls):
        if cls.patched:
            return
        from stepup.core.director import DirectorHandler

        def wrap(name):
            orig = getattr(DirectorHandler, name)

            async def handler(self, job_i, *args, **kwargs):
                mon = cls.current
                if mon is None or mon.db is not self.db:
                    return await orig(self, job_i, *args, **kwargs)
                task = asyncio.current_task()
                rec = {"name": name, "job": job_i, "args": json.loads(json.dumps(args, default=list)),
                       "task": task, "outcome": None, "error": None, "first_tx": mon.ntx + 1,
                       "creator": None, "dropped": None, "injected": False,
                       "fail_stmt": mon.inject.randint(1, 40) if mon.inject is not None and
                       mon.inject.random() < 0.5 else 10 ** 9}
                step = self.scheduler.jobs.get(job_i)
                rec["creator"] = getattr(step, "i", None)
                mon.requests.append(rec)
                mon.by_task[task] = rec
                try:
                    res = await orig(self, job_i, *args, **kwargs)
                    rec["outcome"] = "returned"
                    rec["result"] = repr(res)
                    return res
                except asyncio.CancelledError:
                    rec["outcome"] = "cancelled"
                    rec["at_shutdown"] = self.stop_event.is_set()
                    raise
                except BaseException as exc:
                    rec["outcome"] = "raised"
                    rec["error"] = type(exc).__name__
                    rec["message"] = str(exc)[:300]
                    raise
                finally:
                    rec["last_tx"] = mon.ntx
                    mon.by_task.pop(task, None)
            handler.__name__ = name
            handler.__qualname__ = orig.__qualname__
            handler.__doc__ = orig.__doc__
            from stepup.core.rpc import allow_rpc
            setattr(DirectorHandler, name, allow_rpc(handler))

        for name in MUTATING:
            wrap(name)
        cls.patched = True

    # -- effect oracle, runs inside the committing transaction --------------------------------------
    def effect_checker(self, mon, prev, snap, tx):
        rec = self.by_task.get(tx.task)
        if rec is None or snap is None or tx.rolled_back is not None or tx.writes == 0:
            return
        rec.setdefault("write_txs", []).append(tx.index)
        if len(rec["write_txs"]) > 1:
            return
        # Which step is the requester?  The scheduler knows the job; find its node through the
        # running step with that job index (recorded by the harness at dispatch).
        creator = rec["creator"]
        if creator is None or creator not in snap["node"]:
            self.count("effects_skipped_unknown_requester")
            return
        if snap["node"][creator][3]:
            self.count("effects_skipped_detached_requester")
            return
        missing = effect_missing(rec, creator, prev, snap)
        self.count("effects_checked")
        if missing:
            self.effect_findings += 1
            self.finding("accepted request did not take full effect",
                         f"{rec['name']}{rec['args']} by {snap['node'][creator][1][:60]!r}: {missing[:4]}",
                         {"request": {k: rec[k] for k in ("name", "job", "args")}})


def request_paths(rec):
    name, args = rec["name"], rec["args"]
    if name == "define_step":
        return list(args[1]) + list(args[3]) + list(args[4])
    if name == "amend_step":
        return list(args[0]) + list(args[2]) + list(args[3])
    if name == "declare_static":
        return list(args[0]) + list(args[1])
    if name == "register_glob":
        return list(args[2])
    return []


def files_by_label(snap):
    out = {}
    for fi, (state, _h) in snap["file"].items():
        kind, lab, creator, det = snap["node"][fi]
        out.setdefault(lab, []).append((fi, state, creator, det))
    return out


def effect_missing(rec, creator, prev, snap):
    name, args = rec["name"], rec["args"]
    files = files_by_label(snap)
    deps = set(snap["dep"].values())
    missing = []

    def owned(path, step, states, what):
        if not any(not det and cr == step and st in states for (_fi, st, cr, det) in files.get(path, [])):
            missing.append(f"{what} {path} is not an attached node of the step in the right role")

    def edge_from(path, step):
        if not any((fi, step) in deps for (fi, _st, _cr, _det) in files.get(path, [])):
            missing.append(f"no edge from input {path} to the step")

    if name == "define_step":
        command, inp, _env, out, vol, wd, _need, res = args[:8]
        label = command if wd in (".", "") else f"{command}  # wd={wd}"
        steps = [i for i, (kind, lab, cr, det) in snap["node"].items()
                 if kind == "step" and lab == label and not det]
        if len(steps) != 1:
            return [f"{len(steps)} attached step nodes with label {label!r}"]
        step = steps[0]
        if snap["node"][step][2] != creator:
            missing.append("the new step is not created by the requester")
        for p in out:
            owned(p, step, (15, 16, 17), "output")
        for p in vol:
            owned(p, step, (18,), "volatile output")
        for p in inp:
            edge_from(p, step)
        for rname, units in (res or {}).items():
            if snap["step_resource"].get((step, rname)) != units:
                missing.append(f"resource {rname} not recorded")
    elif name == "amend_step":
        inp, _env, out, vol = args[:4]
        for p in out:
            owned(p, creator, (15, 16, 17), "amended output")
        for p in vol:
            owned(p, creator, (18,), "amended volatile output")
        for p in inp:
            edge_from(p, creator)
    elif name == "declare_static":
        trees, paths, patterns = args[:3]
        for t in trees:
            if not any(kind == "st" and lab == t and not det for (kind, lab, _c, det) in snap["node"].values()):
                # a tree inside an existing tree is a no-op
                if not any(kind == "st" and not det and t.startswith(lab)
                           for (kind, lab, _c, det) in snap["node"].values()):
                    missing.append(f"static tree {t} not attached")
        for p in paths:
            if not any(not det and st in (12, 13, 14) for (_fi, st, _cr, det) in files.get(p, [])):
                missing.append(f"static file {p} has no attached node in the static role")
        for pat, _matches in patterns:
            if not any(node == creator and pattern == pat for (node, pattern, _r, _d) in snap["nglob"].values()):
                missing.append(f"pattern {pat} not recorded for the requester")
    elif name == "register_glob":
        pat = args[0]
        if not any(node == creator and pattern == pat for (node, pattern, _r, _d) in snap["nglob"].values()):
            missing.append(f"pattern {pat} not recorded for the requester")
    elif name in ("hold_dispatch", "release_dispatch") and prev is not None and creator in prev["step"]:
        delta = snap["step"][creator]["_holding"] - prev["step"][creator]["_holding"]
        want = 1 if name == "hold_dispatch" else -1
        if delta != want:
            missing.append(f"hold counter changed by {delta}, expected {want}")
    return missing


# ---------------------------------------------------------------------------------------------
# directed scenarios: (plan items, cfg, expectation on the witnessed rejections)
# ---------------------------------------------------------------------------------------------


def directed_nth_collision():
    """define_step whose third output is owned by an earlier step; amend whose second output is
    a static file; static whose last file is somebody's output."""
    a0 = [{"a": "raw", "name": "define_step",
           "args": ["do [] #first", [], [], ["o3"], [], ".", 32, {}, False, None, None]},
          {"a": "gate", "name": "x"},
          {"a": "raw", "name": "define_step",
           "args": ["do [] #second", ["f1"], [], ["o1", "o2", "o3"], ["o4"], ".", 32, {}, False, None, None]},
          {"a": "raw", "name": "amend_step", "args": [["f2"], [], ["d/o5", "f1"], []]},
          {"a": "raw", "name": "declare_static", "args": [[], ["f2", "f3", "o3"], []]},
          {"a": "raw", "name": "register_glob", "args": ["o*", {}, ["o3"]]},
          {"a": "raw", "name": "release_dispatch", "args": []}]
    return [a0], {"njob": 2, "keep_going": True}, 5


def directed_late_cycle():
    """An amend whose last input is the output of a step the requester created itself."""
    a0 = [{"a": "raw", "name": "define_step",
           "args": ["do [] #child", ["f1"], [], ["o1"], [], ".", 32, {}, False, None, None]},
          {"a": "gate", "name": "x"},
          {"a": "raw", "name": "amend_step", "args": [["f2", "f3", "o1"], [], ["o2"], []]},
          {"a": "raw", "name": "define_step",
           "args": ["do [] #loop", ["o1", "o3"], [], ["o3", "o4"], [], ".", 32, {}, False, None, None]}]
    return [a0], {"njob": 2, "keep_going": True}, 1


def directed_forbidden_target():
    a0 = [{"a": "raw", "name": "declare_static", "args": [[], ["f2", "f3", "o1"], []]},
          {"a": "raw", "name": "define_step",
           "args": ["do [] #vol", [], [], ["o2"], ["o1"], ".", 32, {}, False, None, None]}]
    return [a0], {"njob": 2, "keep_going": True, "targets": ["o1"]}, 1


def directed_drop_all():
    """Every request is sent on a connection that is closed at once."""
    progs = []
    for k in range(3):
        progs.append([
            {"a": "drop", "name": "define_step", "when": w,
             "args": [f"do [] #d{k}{j}", ["f1"], [], [OUTS[(2 * k + j) % 6]], [], ".", 32, {}, False, None, None]}
            for j, w in enumerate(["sent", "gate", "partial"])
        ] + [{"a": "drop", "name": "amend_step", "args": [["f2"], [], [f"q{k}"], []], "when": "sent", "die": True}])
    return progs, {"njob": 3, "keep_going": True}, 0


def directed_drop_slow():
    """Requests on connections that are closed at once while the director is slow: the hash jobs that
    amend_step waits for between its transactions take seconds (large files, a busy machine), so the
    handler is still at work long after its peer has gone.  It must finish all the same."""
    progs = []
    for k in range(2):
        # the file is declared static a moment earlier, so its hash job is still waiting for its
        # thread when amend_step promotes it and waits for it between its two transactions
        progs.append([{"a": "static", "files": [["f2", "f3"][k]]},
                      {"a": "drop", "name": "amend_step", "args": [["f2", "f3"][k:k + 1], [], [f"q{k}"], []],
                       "when": "sent", "die": True}])
    return progs, {"njob": 2, "keep_going": True,
                   "thread_delay": {"p": 1.0, "min": 3.4, "max": 4.2, "seed": 5}}, 0


DIRECTED = {"drop_slow": directed_drop_slow, "nth_collision": directed_nth_collision, "late_cycle": directed_late_cycle,
            "forbidden_target": directed_forbidden_target, "drop_all": directed_drop_all}


# ---------------------------------------------------------------------------------------------


def setup_project(rng, progs, extra_static=True):
    for p in FILES:
        H.write_file(p, f"content of {p}\n")
    plan = [{"a": "static", "files": ["f1"]}]
    if extra_static and rng.random() < 0.5:
        plan.append({"a": "static", "files": ["f2"], "trees": rng.sample(TREES, rng.choice([0, 1]))})
    if extra_static and rng.random() < 0.3:
        plan.append({"a": "step", "cmd": 'do [{"a": "write", "path": "o2"}]', "out": ["o2"], "inp": ["f1"]})
    for k, prog in enumerate(progs):
        plan.append({"a": "step", "need": "PLAN",
                     "cmd": "do " + json.dumps(prog + [{"a": "gate", "name": f"end{k}"}])})
    H.write_plan("plan.py", plan)
    return plan


def run_case(case):
    rng = random.Random(case["seed"])
    counters = dict.fromkeys(["evaluations", "builds", "requests_applied", "injected_failures",
                              "multi_tx_requests", "cancelled_requests", "effects_skipped",
                              "transactions", "applied_then_requester_gone", "rejected_on_later_path",
                              "dropped_cancelled_at_shutdown", "build_errors"] + REQUIRED_COUNTERS, 0)
    violations = []
    classes = set()
    stages = set()
    errors = []
    witness = {"case": case["id"]}

    def vio(mechanism, message, extra=None):
        if sum(1 for v in violations if v["mechanism"] == mechanism) < 2:
            violations.append({"mechanism": mechanism, "message": f"{case['id']}: {message}",
                               "witness": json.loads(json.dumps({**witness, **(extra or {})}, default=str))})

    def analyse(mon, build, what):
        counters["builds"] += 1
        if build.error is not None:
            counters["build_errors"] += 1
            errors.append(f"{what}: {build.error[0]}: {str(build.error[1])[-300:]}")
        counters["transactions"] += mon.ntx
        counters["rollbacks_compared"] += mon.counters.get("rollbacks_compared", 0)
        counters["effects_checked"] += mon.counters.get("effects_checked", 0)
        counters["effects_skipped"] += mon.counters.get("effects_skipped_unknown_requester", 0) + \
            mon.counters.get("effects_skipped_detached_requester", 0)
        counters["injected_failures"] += mon.injected
        for mech, msg, wit in mon.findings:
            if mech.startswith("harness:") and "checker raised" not in mech and "monitor raised" not in mech:
                continue
            vio(mech, f"{what}: {msg}", wit)
        by_task = {}
        for tx in mon.tx_log:
            by_task.setdefault(tx.task, []).append(tx)
        write_owner = [(tx.index, tx.task) for tx in mon.tx_log
                       if tx.rolled_back is None and tx.writes > 0 and tx.changed is not False]
        # disconnects: every dropped request must have reached a handler that ran to completion
        pending = list(build.dropped)
        counters["dropped_sent"] += len(pending)
        for d in pending:
            match = [r for r in mon.requests if r["name"] == d["name"] and r["job"] == d["job"]
                     and r["args"] == json.loads(json.dumps(d["args"], default=list)) and not r.get("matched")]
            if not match:
                vio("request sent in full on a dropped connection never reached its handler",
                    f"{what}: {d['name']}{json.dumps(d['args'])[:200]} by {d['step'][:60]!r} ({d['when']})")
                continue
            rec = match[0]
            rec["matched"] = True
            rec["dropped"] = d["when"]
            if rec["outcome"] == "cancelled" and rec.get("at_shutdown"):
                # The director was shutting down (the build had ended) while the handler waited
                # between transactions: every transaction it had opened was closed, and the
                # effect oracle has judged the one that wrote.
                counters["dropped_cancelled_at_shutdown"] += 1
            elif rec["outcome"] in ("returned", "raised"):
                counters["dropped_handled"] += 1
                classes.add(repr((rec["name"], rec["outcome"], rec["error"], bool(rec["injected"]), d["when"])))
            else:
                vio("handler of a request on a dropped connection did not run to completion",
                    f"{what}: {d['name']}{json.dumps(d['args'])[:200]} ({d['when']}): outcome {rec['outcome']}")
        for rec in mon.requests:
            counters["requests_seen"] += 1
            txs = [t for t in by_task.get(rec["task"], [])]
            # a transaction that only touched scratch tables (path_list) changed nothing that
            # is stored: `changed` compares the persistent tables before and after the commit
            wrote = [t for t in txs if t.rolled_back is None and t.writes > 0 and t.changed is not False]
            req = f"{rec['name']}(job {rec['job']}, {json.dumps(rec['args'])[:200]})"
            dropped = rec.get("dropped")
            pos = None
            if rec["outcome"] == "raised":
                counters["requests_rejected"] += 1
                raised_in_tx = bool(txs) and txs[-1].rolled_back is not None
                if wrote and dropped and not raised_in_tx and rec["error"] == "ValueError" and \
                        "No running step found" in rec.get("message", ""):
                    # applied in full; only the notification of a requester that is gone failed
                    counters["applied_then_requester_gone"] += 1
                elif wrote:
                    vio("rejected request left committed changes",
                        f"{what}: {req} raised {rec['error']}: {rec.get('message')} but transaction(s) "
                        f"{[t.index for t in wrote]} committed {[t.writes for t in wrote]} change(s)")
            elif rec["outcome"] == "returned":
                counters["requests_applied"] += 1
                if len(wrote) > 1:
                    counters["multi_tx_requests"] += 1
                    lo, hi = wrote[0].index, wrote[-1].index
                    between = [i for i, t in write_owner if lo < i < hi and t is not rec["task"]]
                    if between:
                        vio("changes of another task between the writing transactions of one request",
                            f"{what}: {req} wrote in transactions {[t.index for t in wrote]}; "
                            f"other writers in between: {between[:4]}")
            elif rec["outcome"] == "cancelled":
                counters["cancelled_requests"] += 1
                if wrote and any(t.rolled_back is not None for t in txs):
                    vio("cancelled request applied only a part", f"{what}: {req}")
            if rec["outcome"] == "raised" and not rec["injected"]:
                paths = request_paths(rec)
                hit = [k for k, p_ in enumerate(paths) if p_ in rec.get("message", "")]
                if hit and len(paths) > 1:
                    pos = "first" if hit[0] == 0 else ("last" if hit[0] == len(paths) - 1 else "middle")
                    counters["rejected_on_later_path"] += pos != "first"
                import re as _re
                stages.add(_re.sub(r"\([^)]*\)|: .*$|\d+", "", rec.get("message", ""))[:60])
            classes.add(repr((rec["name"], rec["outcome"], rec["error"], bool(rec["injected"]),
                              bool(dropped), pos)))
    def one_build(progs, cfg, mode, inject=None, what=""):
        mon = RequestMonitor(inject=inject)
        ctl = H.Controller(mode, rng.randrange(1 << 30))
        b = H.run_build(cfg, ctl=ctl, monitors=[mon], timeout=60)
        if len(progs) > 1 and cfg.get("njob", 1) > 1:
            counters["concurrent_builds"] += 1
        counters["evaluations"] += 1
        analyse(mon, b, what)
        return mon, b

    os.makedirs("w")
    cwd = os.getcwd()
    os.chdir("w")
    try:
        if case["kind"] == "directed":
            progs, cfg, min_rejected = DIRECTED[case["scenario"]]()
            witness.update({"programs": progs, "cfg": cfg})
            # drop_slow: every hash thread of that build takes seconds, one schedule is enough
            for mode in (("free",) if case["scenario"] == "drop_slow" else ("free", "serial", "jitter")):
                for p in list(os.listdir(".")):
                    shutil.rmtree(p) if os.path.isdir(p) else os.unlink(p)
                setup_project(rng, progs, extra_static=False)
                before = counters["requests_rejected"]
                one_build(progs, cfg, mode, what=f"{case['scenario']} ({mode})")
                if counters["requests_rejected"] - before < min_rejected:
                    return {"status": "inconclusive", "violations": violations, "counters": counters,
                            "reason": f"directed scenario {case['scenario']} produced "
                                      f"{counters['requests_rejected'] - before} rejections, expected "
                                      f"at least {min_rejected}"}
        else:
            for rep in range(3):
                for p in list(os.listdir(".")):
                    shutil.rmtree(p) if os.path.isdir(p) else os.unlink(p)
                nactor = rng.randint(2, 4)
                progs = [actor_program(rng, rng.randint(3, 7), 0.0) for _ in range(nactor)]
                setup_project(rng, progs)
                # programs are generated after the files exist (glob matches), so regenerate
                drop_prob = 0.2 if case["kind"] == "mix" else 0.0
                progs = [actor_program(rng, rng.randint(3, 7), drop_prob) for _ in range(nactor)]
                plan = setup_project(rng, progs)
                cfg = {"njob": rng.choice([2, 3, 4]), "keep_going": True,
                       "resources": rng.choice([None, "cpu:1"])}
                if rng.random() < 0.3:
                    cfg["targets"] = [rng.choice(OUTS)]
                if rng.random() < 0.4:
                    # requests of concurrent steps wait for the database lock in other orders
                    cfg["db_delay"] = {"p": rng.choice([0.1, 0.4]), "max": 0.003, "seed": rng.randrange(1 << 30)}
                if rng.random() < 0.3:
                    cfg["thread_delay"] = {"p": rng.choice([0.3, 1.0]), "max": 0.02, "seed": rng.randrange(1 << 30)}
                witness.update({"plan": plan, "cfg": cfg})
                mode = rng.choice(["free", "jitter", "jitter", "serial"])
                inject = random.Random(rng.randrange(1 << 30)) if case["kind"] == "inject" else None
                one_build(progs, cfg, mode, inject=inject, what=f"rep {rep} ({mode})")
                # a second build on the same database (recycling, orphans, replays)
                if rng.random() < 0.4:
                    progs2 = [actor_program(rng, rng.randint(2, 5), drop_prob) for _ in range(nactor)]
                    witness["plan2"] = setup_project(rng, progs2)
                    one_build(progs2, cfg, mode, inject=inject, what=f"rep {rep} second build ({mode})")
    finally:
        os.chdir(cwd)
        shutil.rmtree("w", ignore_errors=True)
    return {
        "status": "violation" if violations else "held",
        "violations": violations,
        "counters": counters,
        "nontrivial": sorted(classes),
        "nontrivial_many": True,
        "sets": {"request_classes": sorted(classes), "rejection_messages": sorted(stages)},
        "sample": {"case": case["id"], "classes": sorted(classes)[:4], "build_errors": errors[:3]},
    }
