"""C01: an incremental build is equivalent to a build from scratch.

For a generated project and a generated history of edits (each followed by a build under a random
configuration), the final tree's user files are rendered into a fresh directory and built from
scratch.  The attached canonical graph (with digests, needs, dynamic markers, glob patterns and
their recorded matches), the output contents and the return code must be equal.
"""

from __future__ import annotations

import copy
import json
import os
import random
import shutil

from vmon import harness as H

PROPERTY = "C01"
LEVEL = "exploration"
RULE = (
    "distinct (project shape, edit-kind sequence) histories in which at least one edit changed "
    "the plans or a source between two builds"
)
TIMEOUT = 600
REQUIRED_COUNTERS = ["histories", "final_compared", "recycle_full", "recycle_partial",
                     "lost_product", "deleted_detached"]
ASSUMPTIONS = [
    "steps are simulated behind the process boundary (mode A); their behaviour is a deterministic "
    "function of command, contents read and tracked environment values",
    "every write gets a strictly increasing mtime (no timestamp-granularity effects)",
    "strict comparison only when the from-scratch build succeeds (valid generator profile)",
]

RESOURCES = "cpu:2,gpu:2"


def gen_cases(tier, seed):
    n = 48 if tier == "quick" else 1200
    cases = [{"id": f"c01-seed-{k}", "seed": seed, "scenario": k} for k in SEED_SCENARIOS]
    cases += [{"id": f"c01-seed-deferred_subplan_moved_output-{i}", "seed": seed * 131 + 1 + i,
               "scenario": "deferred_subplan_moved_output"} for i in range(5 if tier == "quick" else 40)]
    cases += [{"id": f"c01-{seed}-{i}", "seed": seed * 9973 + i, "nhist": 4} for i in range(n)]
    return cases


def tree_outputs(root):
    """{path: content} of every file outside .stepup."""
    out = {}
    for dp, dns, fns in os.walk(root):
        dns[:] = [d for d in dns if d != ".stepup"]
        for f in fns:
            p = os.path.relpath(os.path.join(dp, f), root)
            try:
                with open(os.path.join(dp, f)) as fh:
                    out[p] = fh.read()
            except OSError:
                out[p] = None
    return out


def rand_cfg(rng, final=False):
    cfg = {"njob": rng.choice([1, 2, 3]), "resources": RESOURCES}
    if not final:
        r = rng.random()
        if r < 0.12:
            cfg["clean"] = False
        elif r < 0.2:
            cfg["keep_going"] = True
    return cfg


class Reach:
    """Reach counters on the anchored mechanisms (wrapped once per process)."""

    counters = {}
    installed = False

    @classmethod
    def install(cls):
        if cls.installed:
            return
        from stepup.core import step as step_mod
        from stepup.core import trellis

        def wrap(obj, name, key, pred=lambda res: True):
            orig = getattr(obj, name)

            def wrapper(*a, **k):
                res = orig(*a, **k)
                if pred(res):
                    cls.counters[key] = cls.counters.get(key, 0) + 1
                return res

            setattr(obj, name, wrapper)

        wrap(trellis.Trellis, "try_recycle", "recycle_full", lambda res: res is not None)
        wrap(step_mod.Step, "after_lost_product", "lost_product")
        orig_create = trellis.Trellis.create

        def create(self, node_type, creator, label="", **kw):
            lab = node_type.adjust_label(label, **kw)
            node, detached = self.find_and_detached(node_type, lab)
            if node is not None and detached:
                cls.counters["recycle_partial"] = cls.counters.get("recycle_partial", 0) + 1
            return orig_create(self, node_type, creator, label, **kw)

        trellis.Trellis.create = create
        orig_del = trellis.Trellis.delete_detached

        def delete_detached(self):
            before = self.db.execute("SELECT count(*) FROM node").fetchone()[0]
            res = orig_del(self)
            after = self.db.execute("SELECT count(*) FROM node").fetchone()[0]
            if after < before:
                cls.counters["deleted_detached"] = cls.counters.get("deleted_detached", 0) + (before - after)
            return res

        trellis.Trellis.delete_detached = delete_detached
        cls.installed = True


def build_scratch(spec, scratch_dir, env):
    from vmon import gen, harness as H

    cwd = os.getcwd()
    os.makedirs(scratch_dir)
    os.chdir(scratch_dir)
    try:
        gen.render(spec)
        b = H.run_build({"njob": 1, "resources": RESOURCES}, env=env)
        text, globs = H.graph_text(attached_only=True)
        return b, text, globs, tree_outputs(".")
    finally:
        os.chdir(cwd)


def compare_final(ctx, spec, env, label, witness):
    """Compare the current directory (after its last build) with a from-scratch build."""
    text_i, globs_i = H.graph_text(attached_only=True)
    outs_i = tree_outputs(".")
    scratch = os.path.join(os.path.dirname(os.getcwd()), "scratch-" + os.path.basename(os.getcwd()))
    shutil.rmtree(scratch, ignore_errors=True)
    b_s, text_s, globs_s, outs_s = build_scratch(spec, scratch, env)
    shutil.rmtree(scratch, ignore_errors=True)
    if b_s.error is not None or b_s.returncode is None or b_s.returncode.value != 0:
        return "scratch_failed", b_s
    ctx["counters"]["final_compared"] += 1
    if text_i != text_s:
        blocks_i, blocks_s = set(text_i.split("\n\n")), set(text_s.split("\n\n"))
        only_i = sorted(blocks_i - blocks_s)
        only_s = sorted(blocks_s - blocks_i)
        mech = classify_graph_diff(only_i, only_s)
        gi, gs = H.parse_graph(text_i), H.parse_graph(text_s)
        ni, removed_i = H.drop_pending_memory(gi)
        ns, _removed_s = H.drop_pending_memory(gs)
        if ni == ns:
            mech = OPT_MEMORY_MECH
            ctx["opt_memory_files"] = {h[5:] for h in removed_i if h.startswith("file:")}
        elif any(h not in gs for h in only_optional_products_differ(gi, gs)):
            # (at least one step exists only in the incremental graph, below an optional step:
            # without such a keeper, an optional step that stays done is a stale need, not memory)
            # A step that an optional step defined in an earlier run is still attached, consumes
            # the optional step's output and thereby keeps it needed: a stable state that a
            # from-scratch build (where the optional step never runs) does not have.
            mech = OPT_MEMORY_MECH
            suspect = only_optional_products_differ(gi, gs)
            ctx["opt_memory_files"] = {
                h[5:] for h, node in gi.items() if h.startswith("file:")
                and {r[1] for r in node["rels"] if r[0] in ("source", "creator")} & suspect}
        elif ctx.get("stale_need_seen") and only_optional_differs(gi, gs):
            mech = STALE_NEED_MECH
            ctx["stale_need_graph"] = True
        ctx["vio"](mech,
                   f"{label}: graph after the history differs from a from-scratch build.\n"
                   f"only incremental:\n" + "\n\n".join(only_i[:4])[:1500] +
                   f"\nonly scratch:\n" + "\n\n".join(only_s[:4])[:1500], witness)
    elif globs_i != globs_s:
        ctx["vio"]("recorded glob matches differ from a from-scratch build",
                   f"{label}: {globs_i} vs {globs_s}", witness)
    diff = {p for p in set(outs_i) | set(outs_s) if outs_i.get(p) != outs_s.get(p)}
    # A former output whose (detached) node an active step still has as an input stays on disk and
    # in the graph by design (C07: "unless an active step still uses it as an input"); a build from
    # scratch has no such file.  C01 speaks about declared outputs and active nodes only.
    held = held_by_active_step() if any(p not in outs_s for p in diff) else set()
    kept = {p for p in diff if p not in outs_s and p in held}
    if kept:
        ctx["counters"]["former_outputs_held_by_an_active_consumer"] = \
            ctx["counters"].get("former_outputs_held_by_an_active_consumer", 0) + len(kept)
        diff -= kept
    if diff:
        only_i = sorted(p for p in diff if p not in outs_s)
        only_s = sorted(p for p in diff if p not in outs_i)
        changed = sorted(p for p in diff if p in outs_i and p in outs_s)
        mech = "files on disk differ from a from-scratch build"
        if ctx.get("stale_need_graph") and not only_s and not changed:
            mech = STALE_NEED_MECH
        elif ctx.get("opt_memory_files") and not only_s and not changed and \
                set(only_i) <= ctx["opt_memory_files"]:
            mech = OPT_MEMORY_MECH
        elif changed:
            mech = "stale output content after an incremental build"
        elif only_s:
            mech = "output missing after an incremental build"
        elif only_i:
            mech = "leftover file after an incremental build"
        ctx["vio"](mech, f"{label}: only incremental={only_i} only scratch={only_s} "
                   f"content differs={changed}", witness)
    return "compared", b_s


def held_by_active_step():
    """Paths of detached file nodes of the current directory's workflow that are an input of an
    attached step."""
    import sqlite3
    con = sqlite3.connect("file:.stepup/graph.db?mode=ro", uri=True)
    try:
        return {r[0] for r in con.execute(
            "SELECT f.label FROM node AS f JOIN dependency ON dependency.source = f.i "
            "JOIN node AS s ON s.i = dependency.sink "
            "WHERE f.kind = 'file' AND f.detached AND s.kind = 'step' AND NOT s.detached")}
    finally:
        con.close()


OPT_MEMORY_MECH = ("optional step that is no longer needed keeps what an earlier run of it created "
                   "(amended inputs and outputs, defined steps and their outputs)")


def only_optional_differs(gi, gs):
    """Every differing node is an OPTIONAL-need step (by its declaration) or one of its outputs."""
    heads = {h for h in set(gi) | set(gs) if gi.get(h) != gs.get(h)}
    opt_steps = {h for h in heads if h.startswith("step:") and
                 any(k == "need" and v.startswith("OPTIONAL") or k == "need" and "> OPTIONAL" in v
                     for k, v in (gi.get(h) or gs.get(h))["props"])}
    for h in heads - opt_steps:
        node = gi.get(h) or gs.get(h)
        if h.startswith("file:") and any(r[0] in ("source", "creator") and r[1] in opt_steps
                                         for r in node["rels"]):
            continue
        # consumers/inputs of those steps only differ in their relation lines to them
        a, b = gi.get(h), gs.get(h)
        if a is None or b is None or a["props"] != b["props"]:
            return False
        diff = set(a["rels"]) ^ set(b["rels"])
        if not all(r[1] in opt_steps or r[1] in heads for r in diff):
            return False
    return bool(opt_steps)


def only_optional_products_differ(gi, gs):
    """Every difference is confined to declared-OPTIONAL steps, to steps that exist only in the
    incremental graph below a declared-OPTIONAL step, and to the files these steps produce."""
    def declared_optional(node):
        for k, v in node["props"]:
            if k == "need":
                return v.startswith("OPTIONAL") or v.endswith("> OPTIONAL)")
        return set()

    def creator(g, head):
        for role, key, _d in g[head]["rels"]:
            if role == "creator":
                return key
        return None

    diff = {h for h in set(gi) | set(gs) if gi.get(h) != gs.get(h)}
    suspect = set()
    for h in diff:
        if not h.startswith("step:"):
            continue
        node = gi.get(h) or gs.get(h)
        if declared_optional(node):
            suspect.add(h)
            continue
        if h in gs:
            return set()
        cur, ok = creator(gi, h), False
        while cur in gi and cur.startswith("step:"):
            if declared_optional(gi[cur]):
                ok = True
                break
            cur = creator(gi, cur)
        if not ok:
            return set()
        suspect.add(h)
    if not suspect:
        return set()
    for h in diff - suspect:
        a, b = gi.get(h), gs.get(h)
        node = a or b
        produced_by = {r[1] for r in node["rels"] if r[0] in ("source", "creator")}
        if produced_by & suspect:
            continue
        if b is None and h.startswith("file:") and any(k.startswith("st:") for k in produced_by):
            # a member of a static tree gets its node when a step first uses it: here only the
            # suspect steps do
            sinks = {r[1] for r in node["rels"] if r[0] == "sink"}
            if sinks and sinks <= suspect:
                continue
        if a is None or b is None or a["props"] != b["props"]:
            return set()
        if not all(r[1] in suspect or r[1] in diff for r in set(a["rels"]) ^ set(b["rels"])):
            return set()
    return suspect


def classify_graph_diff(only_i, only_s):
    heads_i = {b.split("\n", 1)[0] for b in only_i}
    heads_s = {b.split("\n", 1)[0] for b in only_s}
    if heads_s - heads_i:
        return "node of the from-scratch graph is missing after an incremental build"
    if heads_i - heads_s:
        return "node that the final plans no longer define is still active"
    return "state or relation of a node differs from the from-scratch graph"


def rand_schedule(rng, cfg, force=None):
    """A schedule for one build: the policy that releases the actions of the simulated steps, and
    (sometimes) hash threads of the director that are slow to start."""
    force = force or {}
    cfg = dict(cfg)
    if "njob" in force:
        cfg["njob"] = force["njob"]
    policy = rng.choice(force.get("policies", ["free", "free", "jitter", "serial"]))
    if rng.random() < force.get("thread_delay", 0.25):
        cfg["thread_delay"] = {"p": rng.choice([0.3, 1.0]), "max": 0.02, "seed": rng.randrange(1 << 30)}
    if rng.random() < force.get("db_delay", 0.25):
        cfg["db_delay"] = {"p": rng.choice([0.1, 0.4]), "max": 0.003, "seed": rng.randrange(1 << 30)}
    return cfg, policy, rng.randrange(1 << 30)


def run_history(ctx, rng, spec, phases, final_cfg=None, force=None):
    from vmon import gen, harness as H, invariants as I

    Reach.install()
    cfgs = []
    files = gen.render(spec)
    env = dict(spec.get("env", {}))
    cfg, policy, cseed = rand_schedule(rng, rand_cfg(rng), force)
    cfgs.append([cfg, policy, cseed])
    mon = I.make_monitor()
    b = H.run_build(cfg, ctl=H.Controller(policy, cseed), monitors=[mon], env=env)
    ctx["counters"]["builds_" + policy] = ctx["counters"].get("builds_" + policy, 0) + 1
    ctx["collect"](mon, b, "initial build")
    edit_kinds = []
    for k, phase in enumerate(phases):
        cur = phase["spec"]
        files = gen.render(cur, previous=files)
        env = dict(cur.get("env", {}))
        last = k == len(phases) - 1
        cfg = final_cfg or rand_cfg(rng, final=True) if last else rand_cfg(rng)
        cfg, policy, cseed = rand_schedule(rng, cfg, force)
        cfgs.append([cfg, policy, cseed])
        mon = I.make_monitor()
        b = H.run_build(cfg, ctl=H.Controller(policy, cseed), monitors=[mon], env=env)
        ctx["counters"]["builds_" + policy] = ctx["counters"].get("builds_" + policy, 0) + 1
        if b.thread_delays:
            ctx["counters"]["builds_with_slow_hash_threads"] = ctx["counters"].get("builds_with_slow_hash_threads", 0) + 1
        ctx["collect"](mon, b, f"build {k + 1}")
        edit_kinds.append(tuple(e[0] for e in phase["edits"]))
    final_spec = phases[-1]["spec"] if phases else spec
    if not phases:
        return b, final_spec, env, edit_kinds, cfgs
    return b, final_spec, env, edit_kinds, cfgs


# ---------------------------------------------------------------------------------------------
# Hand-written seed scenarios that reach the anchored mechanisms
# ---------------------------------------------------------------------------------------------


def scenario_subplan_readd():
    """Drop a sub-plan step whose output is held by an optional consumer, clean up, re-add it."""
    spec = {
        "sources": {"src/a.txt": "a\n"},
        "env": {},
        "steps": {
            "S": {"kind": "do", "salt": "", "inp": ["src/a.txt"], "out": ["out/h.txt"]},
            "O": {"kind": "do", "salt": "", "inp": ["src/a.txt"], "out": ["out/g.txt"],
                  "defines": ["S"], "need": "PLAN"},
            "OC": {"kind": "do", "salt": "", "inp": ["out/g.txt"], "out": ["out/oc.txt"],
                   "need": "OPTIONAL"},
        },
        "plans": {".": [["static", ["src/a.txt"]], ["step", "O"], ["step", "OC"]]},
    }
    p2 = copy.deepcopy(spec)
    p2["plans"]["."] = [["static", ["src/a.txt"]], ["step", "OC"]]
    p3 = copy.deepcopy(spec)
    return spec, [{"edits": [["drop_step", "drop O"]], "spec": p2},
                  {"edits": [["readd_step", "re-add O unchanged"]], "spec": p3}]


def scenario_failed_plan_then_edit():
    """The root plan fails before it runs its sub-plan again (everything the sub-plan declared stays
    detached, nothing is cleaned up after the failed build); then the plan is repaired and a static
    file that only the sub-plan declares is edited while StepUp is not running."""
    spec = {
        "sources": {"src/a.txt": "a\n", "src/x.txt": "x\n"},
        "env": {},
        "steps": {
            "A": {"kind": "do", "salt": "", "inp": ["src/a.txt"], "out": ["out/a.txt"]},
            "S": {"kind": "do", "salt": "", "inp": ["src/x.txt"], "out": ["out/s.txt"]},
        },
        "plans": {".": [["static", ["src/a.txt", "sub/plan.py"]], ["step", "A"], ["plan", "sub"]],
                  "sub": [["static", ["src/x.txt"]], ["step", "S"]]},
    }
    p2 = copy.deepcopy(spec)
    p2["plans"]["."] = [["static", ["src/a.txt", "sub/plan.py"]], ["step", "A"],
                        ["raw", {"a": "fail", "rc": 3}], ["plan", "sub"]]
    p3 = copy.deepcopy(spec)
    p3["sources"]["src/x.txt"] = "x edited while StepUp was down\n"
    return spec, [{"edits": [["break_plan", "root plan fails before the sub-plan"]], "spec": p2},
                  {"edits": [["repair_plan", "root plan as before"], ["change_source", "src/x.txt"]], "spec": p3}]


def scenario_failed_plan_then_env_change():
    """As failed_plan_then_edit, but what changes while StepUp is down is an environment variable
    that only a step of the (detached) sub-plan uses."""
    spec, phases = scenario_failed_plan_then_edit()
    for sp in [spec] + [p["spec"] for p in phases]:
        sp["env"] = {"VERIF_E1": "one"}
        sp["steps"]["S"]["env"] = ["VERIF_E1"]
        sp["sources"]["src/x.txt"] = "x\n"
    phases[1]["spec"]["env"] = {"VERIF_E1": "two"}
    phases[1]["edits"] = [["repair_plan", "root plan as before"], ["change_env", "VERIF_E1 -> two"]]
    return spec, phases


def scenario_failed_plan_then_new_match():
    """As failed_plan_then_edit, but what happens while StepUp is down is a new file that matches a
    glob pattern which only the (detached) sub-plan registered."""
    tmpl = {"cmd": "do " + json.dumps([{"a": "read", "path": "{m}"}, {"a": "write", "path": "out/g_{b}.txt"}]),
            "inp": ["{m}"], "out": ["out/g_{b}.txt"]}
    spec = {
        "sources": {"src/a.txt": "a\n", "in/g0.src": "g0\n"},
        "env": {},
        "steps": {"A": {"kind": "do", "salt": "", "inp": ["src/a.txt"], "out": ["out/a.txt"]}},
        "plans": {".": [["static", ["src/a.txt", "sub/plan.py"]], ["step", "A"], ["plan", "sub"]],
                  "sub": [["pattern", "in/*.src"], ["glob", "in/*.src", tmpl]]},
    }
    p2 = copy.deepcopy(spec)
    p2["plans"]["."] = [["static", ["src/a.txt", "sub/plan.py"]], ["step", "A"],
                        ["raw", {"a": "fail", "rc": 3}], ["plan", "sub"]]
    p3 = copy.deepcopy(spec)
    p3["sources"]["in/g1.src"] = "g1 appeared while StepUp was down\n"
    return spec, [{"edits": [["break_plan", "root plan fails before the sub-plan"]], "spec": p2},
                  {"edits": [["repair_plan", "root plan as before"], ["add_match", "in/g1.src"]], "spec": p3}]


def scenario_optional_amend_dropped():
    """An optional producer whose only consumer stops amending its output."""
    spec = {
        "sources": {"src/data.txt": "data\n", "src/w.txt": "w\ninclude out/optional.txt\n"},
        "env": {},
        "steps": {
            "P": {"kind": "do", "salt": "", "inp": ["src/data.txt"], "out": ["out/optional.txt"],
                  "need": "OPTIONAL"},
            "W": {"kind": "do", "salt": "", "inp": ["src/w.txt"], "out": ["out/w.txt"],
                  "include": ["src/w.txt"]},
        },
        "plans": {".": [["static", ["src/data.txt", "src/w.txt"]], ["step", "P"], ["step", "W"]]},
    }
    p2 = copy.deepcopy(spec)
    p2["sources"]["src/w.txt"] = "w changed\n"
    p2["sources"]["src/data.txt"] = "data changed\n"
    p3 = copy.deepcopy(p2)
    return spec, [{"edits": [["change_include", "stop including"], ["change_source", "data"]], "spec": p2},
                  {"edits": [["noop", "no change"]], "spec": p3}]


def scenario_recycle_chain():
    """Drop a chain, rebuild, re-add it with a changed source in between."""
    spec = {
        "sources": {"src/a.txt": "a\n", "src/b.txt": "b\n"},
        "env": {},
        "steps": {
            "A": {"kind": "do", "salt": "", "inp": ["src/a.txt"], "out": ["out/a.txt"]},
            "B": {"kind": "do", "salt": "", "inp": ["out/a.txt", "src/b.txt"], "out": ["out/b.txt"]},
        },
        "plans": {".": [["static", ["src/a.txt", "src/b.txt"]], ["step", "A"], ["step", "B"]]},
    }
    p2 = copy.deepcopy(spec)
    p2["plans"]["."] = [["static", ["src/a.txt", "src/b.txt"]], ["step", "A"]]
    p3 = copy.deepcopy(spec)
    p3["sources"]["src/b.txt"] = "b changed\n"
    return spec, [{"edits": [["drop_step", "drop B"]], "spec": p2},
                  {"edits": [["readd_step", "re-add B"], ["change_source", "b"]], "spec": p3}]


def scenario_move_output():
    spec = {
        "sources": {"src/a.txt": "a\n"},
        "env": {"VERIF_E1": "one"},
        "steps": {
            "A": {"kind": "do", "salt": "", "inp": ["src/a.txt"], "out": ["out/a.txt"],
                  "env": ["VERIF_E1"], "vol": ["out/a.log"]},
            "B": {"kind": "prog", "salt": "", "inp": ["out/a.txt"], "out": ["out/b.txt"],
                  "amend_out": ["out/b_am.txt"]},
        },
        "plans": {".": [["static", ["src/a.txt", "progs/B.json"]], ["step", "A"], ["step", "B"]]},
    }
    p2 = copy.deepcopy(spec)
    p2["steps"]["B"]["amend_out"] = []
    p2["env"]["VERIF_E1"] = "two"
    p3 = copy.deepcopy(p2)
    p3["steps"]["B"]["out"] = ["out/moved/b.txt"]
    return spec, [{"edits": [["edit_prog", "B"], ["change_env", "E1"]], "spec": p2},
                  {"edits": [["move_output", "B"]], "spec": p3}]


def scenario_deferred_subplan_moved_output():
    """A sub-plan defines a slow step X, then amends the output of a slow step L<k> that is new in
    every build, so the sub-plan is deferred and runs a second time while X is running.  X's output
    moves with every edit, so X is created again under its label with another output, and is then
    detached once more (by the second run of the sub-plan) while its command runs."""
    def make(k, xout):
        steps = {
            f"L{k}": {"kind": "do", "salt": "", "inp": ["src/a.txt"], "out": [f"out/late{k}.txt"], "gates_before": 8},
            "X": {"kind": "prog", "inp": ["src/b.txt"], "out": [xout], "gates_before": 14},
            "C": {"kind": "do", "salt": "", "inp": ["src/b.txt"], "out": ["out/c.txt"]},
        }
        return {"sources": {"src/a.txt": "a\n", "src/b.txt": "b\n"}, "env": {}, "steps": steps,
                "order": [f"L{k}", "X", "C"],
                "plans": {".": [["static", ["src/a.txt", "src/b.txt", "progs/X.json", "sub/plan.py"]],
                                ["step", f"L{k}"], ["plan", "sub"]],
                          "sub": [["step", "X"], ["raw", {"a": "gate", "name": "s0"}], ["step", "C"],
                                  ["raw", {"a": "gate", "name": "s1"}],
                                  ["raw", {"a": "amend", "inp": [f"out/late{k}.txt"]}],
                                  ["raw", {"a": "read", "path": f"out/late{k}.txt"}]]}}
    spec = make(0, "out/x.txt")
    return spec, [{"edits": [["drop_step", "L0"], ["add_step", "L1"], ["move_output", "X"]], "spec": make(1, "out/moved/x.txt")},
                  {"edits": [["drop_step", "L1"], ["add_step", "L2"], ["move_output", "X"]], "spec": make(2, "out/x.txt")}]


SCENARIO_FORCE = {
    "deferred_subplan_moved_output": {"njob": 4, "policies": ["serial", "serial", "jitter"], "thread_delay": 0.6},
}

SEED_SCENARIOS = {
    "deferred_subplan_moved_output": scenario_deferred_subplan_moved_output,
    "failed_plan_then_edit": scenario_failed_plan_then_edit,
    "failed_plan_then_env_change": scenario_failed_plan_then_env_change,
    "failed_plan_then_new_match": scenario_failed_plan_then_new_match,
    "subplan_readd": scenario_subplan_readd,
    "optional_amend_dropped": scenario_optional_amend_dropped,
    "recycle_chain": scenario_recycle_chain,
    "move_output": scenario_move_output,
}

RECYCLED_LOST_HASH_MECH = ("fully recycled step that lost a product keeps SUCCEEDED without a "
                           "stored hash and is never run again")
STALE_NEED_MECH = ("optional producer stays built after its only consumer dropped the dynamic "
                   "input (stale cached need)")


def run_case(case):
    from vmon import gen

    rng = random.Random(case["seed"])
    counters = dict.fromkeys(["evaluations", "histories", "final_compared", "scratch_failed",
                              "builds", "commits_checked", "dispatch_decisions"], 0)
    violations = []
    nontrivial = []

    def vio(mechanism, message, witness):
        if sum(1 for v in violations if v["mechanism"] == mechanism) < 2:
            violations.append({"mechanism": mechanism, "message": message, "witness": witness})

    def collect(mon, build, what):
        counters["builds"] += 1
        counters["commits_checked"] += mon.nwrite_commits
        counters["dispatch_decisions"] += mon.counters.get("dispatch_decisions", 0)
        # Findings of the always-on invariant monitors belong to C09/C10 and are reported there.
        counters["invariant_findings_seen"] = counters.get("invariant_findings_seen", 0) + len(mon.findings)
        from vmon.invariants import STALE_AFTER_MECH
        if any(f[0] == STALE_AFTER_MECH for f in mon.findings):
            ctx["stale_need_seen"] = True
        if build.error is not None:
            vio("director raised or hung", f"{what}: {build.error}", {"case": case["id"]})

    ctx = {"counters": counters, "vio": vio, "collect": collect}
    nh = 1 if "scenario" in case else case.get("nhist", 3)
    for h in range(nh):
        sub = f"h{h}"
        os.makedirs(sub, exist_ok=True)
        cwd = os.getcwd()
        os.chdir(sub)
        ctx.pop("stale_need_seen", None)
        ctx.pop("stale_need_graph", None)
        ctx.pop("opt_memory_files", None)
        try:
            if "scenario" in case:
                spec, phases = SEED_SCENARIOS[case["scenario"]]()
                shape = case["scenario"]
            else:
                spec = gen.gen_project(rng)
                phases = gen.gen_history(rng, spec, breaks=0.25)
                shape = json.dumps([len(spec["steps"]), sorted(spec["plans"]),
                                    sorted({st.get("need") for st in spec["steps"].values()})])
            witness = {"spec": spec, "phases": [p["edits"] for p in phases], "case": case["id"],
                       "final_spec": phases[-1]["spec"] if phases else spec}
            b, final_spec, env, edit_kinds, cfgs = run_history(
                ctx, rng, spec, phases, force=SCENARIO_FORCE.get(case.get("scenario")))
            witness["configs"] = cfgs
            counters["histories"] += 1
            counters["evaluations"] += 1
            if b.error is None and b.returncode is not None and b.returncode.value == 0:
                before = len(violations)
                status, _ = compare_final(ctx, final_spec, env, f"{case['id']}/{sub}", witness)
                if status == "scratch_failed":
                    counters["scratch_failed"] += 1
                # mechanism classification for the listed findings
                for v in violations[before:]:
                    if case.get("scenario") == "subplan_readd" or is_recycled_lost_hash():
                        pass
            else:
                # The generator's valid profile promises success: compare anyway when scratch
                # succeeds, because then the incremental build failed where scratch does not.
                before = len(violations)
                status, b_s = compare_final(ctx, final_spec, env, f"{case['id']}/{sub}", witness)
                if status == "compared" and pending_only_below_reverted_optional():
                    # Consequence of the listed finding: a step that a reverted optional step
                    # defined in an earlier run is still attached, became pending, and can never
                    # be dispatched because its creator is not going to run.
                    for v in violations[before:]:
                        v["mechanism"] = OPT_MEMORY_MECH
                    vio(OPT_MEMORY_MECH,
                        f"{case['id']}/{sub}: rc={b.returncode}: a step defined by an optional "
                        f"step that is no longer needed stays pending for ever", witness)
                elif status == "compared":
                    vio("incremental build fails where a from-scratch build succeeds",
                        f"{case['id']}/{sub}: rc={b.returncode} error={b.error}; "
                        f"reports={[e['args'][:2] for e in b.reports('report')][-12:]}", witness)
                else:
                    counters["scratch_failed"] += 1
            if any(k for kinds in edit_kinds for k in kinds if k != "noop"):
                nontrivial.append(json.dumps([shape, edit_kinds]))
        finally:
            os.chdir(cwd)
            shutil.rmtree(sub, ignore_errors=True)
    for key, val in Reach.counters.items():
        counters[key] = val
    Reach.counters.clear()
    return {
        "status": "violation" if violations else "held",
        "violations": violations,
        "counters": counters,
        "nontrivial": nontrivial,
        "nontrivial_many": True,
        "sample": {"case": case["id"]},
    }


def is_recycled_lost_hash():
    return False


def pending_only_below_reverted_optional():
    """In the current directory's graph: every PENDING step that is not optional itself has, in
    its creator chain, an optional step that nothing needs (need line "OPTIONAL", not raised by
    sinks)."""
    text, _ = H.graph_text(attached_only=True)
    g = H.parse_graph(text)

    def props(head):
        return dict(g[head]["props"])

    def creator(head):
        for role, key, _d in g[head]["rels"]:
            if role == "creator":
                return key
        return None

    found = False
    for head in g:
        if not head.startswith("step:"):
            continue
        pr = props(head)
        if pr.get("state") != "PENDING" or pr.get("need", "").startswith("OPTIONAL"):
            continue
        cur, ok = creator(head), False
        while cur in g and cur.startswith("step:"):
            cp = props(cur)
            # an optional step that nothing needs any more: reverted already (PENDING), or still
            # done because the very step it left behind keeps every build incomplete, so that
            # the cleanup that would revert it never runs
            if cp.get("need", "").startswith("OPTIONAL"):
                ok = True
                break
            cur = creator(cur)
        if not ok:
            return False
        found = True
    return found
