"""C20: a path means the same file to a step and to the director.

Part A (pure functions, really executed in the configured directory and environment):
  translate       realpath(R / translate(p, D)) == realpath(C / D / p), C = caller's cwd
  translate_back  realpath(C / D / translate_back(t, D)) == realpath(R / t)
  identity        translate(t) == t for a normalised root-relative t when C == R
  affixes         _keep_affixes(p, translate) keeps a leading './' and a trailing '/'
Part B (real builds with the unmodified command line, `stepup build`):
  plans in nested and sibling working directories declare steps with `workdir=` and variously
  spelled paths; the step scripts log their cwd, ROOT, HERE, the real paths they opened and
  what get_info() returned; the labels stored in the graph database must resolve, from the
  project root, to exactly those files.
"""

from __future__ import annotations

import json
import os
import random
import shutil
import sqlite3
import stat
import subprocess

PROPERTY = "C20"
LEVEL = "exploration"
RULE = (
    "distinct (caller directory, workdir argument, path spelling) triples with a '..' component, "
    "an affix, an absolute part or a non-root caller directory; plus distinct real steps whose "
    "logged paths were compared with the graph"
)
TIMEOUT = 300
REQUIRED_COUNTERS = ["translate_checks", "translate_back_checks", "identity_checks",
                     "affix_checks", "real_steps_checked", "real_paths_compared",
                     "canonical_label_checks", "reenter_checks"]
ASSUMPTIONS = [
    "no symbolic links in the tree (normpath and realpath legitimately differ through a linked '..')",
    "part B needs a successful build; a failing build of the generated project is inconclusive",
]

DIRS = ["a", "a/b", "a/b/c", "x", "x/y", "a/x"]


def gen_cases(tier, seed):
    npure, nreal = (16, 12) if tier == "quick" else (128, 96)
    cases = [{"id": f"c20-pure-{seed}-{i}", "seed": seed * 50021 + i, "kind": "pure",
              "n": 400 if tier == "quick" else 2000} for i in range(npure)]
    cases += [{"id": f"c20-real-{seed}-{i}", "seed": seed * 50021 + 1000 + i, "kind": "real",
               "timeout": 240} for i in range(nreal)]
    return cases


def spell(rng, path):
    """A different spelling of a relative or absolute path that designates the same file."""
    parts = path.split("/")
    out = []
    for i, part in enumerate(parts):
        if part == "":
            out.append(part)
            continue
        r = rng.random()
        if r < 0.15 and part not in ("..", ".") and i < len(parts) - 1:
            out.extend([part, "..", part])
        elif r < 0.3:
            out.extend([".", part])
        elif r < 0.4 and i > 0:
            out.extend(["", part])  # doubled slash
        else:
            out.append(part)
    res = "/".join(out)
    if not path.startswith("/") and rng.random() < 0.25:
        res = "./" + res
    return res


def run_case(case):
    if case["kind"] == "pure":
        return run_pure(case)
    return run_real(case)


# ---------------------------------------------------------------------------------------------
# Part A
# ---------------------------------------------------------------------------------------------


def run_pure(case):
    from stepup.core.api import _keep_affixes
    from stepup.core.exceptions import PathError
    from stepup.core.path import translate, translate_back

    rng = random.Random(case["seed"])
    base = os.path.realpath(os.getcwd())
    root = os.path.join(base, "root")
    outside = os.path.join(base, "outside", "o1")
    for d in DIRS:
        os.makedirs(os.path.join(root, d), exist_ok=True)
    os.makedirs(outside, exist_ok=True)
    counters = dict.fromkeys(["evaluations"] + REQUIRED_COUNTERS + ["path_errors"], 0)
    violations = []
    nontrivial = set()

    def vio(mech, msg, witness):
        if sum(1 for v in violations if v["mechanism"] == mech) < 3:
            violations.append({"mechanism": mech, "message": msg, "witness": witness})

    def rp(*parts):
        return os.path.realpath(os.path.join(*parts))

    saved_env = {k: os.environ.get(k) for k in ("STEPUP_ROOT", "HERE")}
    saved_cwd = os.getcwd()
    try:
        for _ in range(case["n"]):
            # The caller: its working directory, inside or outside the root.
            w = rng.choice([".", ".", "a", "a/b", "a/b/c", "x", "x/y", "../outside/o1"])
            cwd = rp(root, w)
            os.chdir(cwd)
            root_mode = rng.choice(["env", "env", "cwd"]) if w == "." else "env"
            if root_mode == "env":
                os.environ["STEPUP_ROOT"] = root if rng.random() < 0.8 else spell(rng, root)
            else:
                os.environ.pop("STEPUP_ROOT", None)
            here_mode = rng.choice(["set", "set", "unset"])
            if here_mode == "set":
                os.environ["HERE"] = os.path.relpath(cwd, root)
            else:
                os.environ.pop("HERE", None)
            # The workdir argument.
            dchoice = rng.choice(["dot", "dot", "rel", "rel", "up", "abs_in", "abs_out"])
            if dchoice == "dot":
                d = "."
            elif dchoice == "rel":
                d = spell(rng, rng.choice(["sub", "b", "b/c", "y", "q/r"]))
            elif dchoice == "up":
                d = spell(rng, rng.choice(["..", "../x", "../../a/b", "../b"]))
            elif dchoice == "abs_in":
                d = os.path.join(root, rng.choice(DIRS))
            else:
                d = outside
            target_dir = os.path.normpath(os.path.join(cwd, d))
            # The path.
            pchoice = rng.choice(["rel", "rel", "rel", "up", "abs_in", "abs_out", "dot", "reenter"])
            if pchoice == "rel":
                p = rng.choice(["f.txt", "s/f.txt", "s/t/f.txt", "s/"])
            elif pchoice == "up":
                p = rng.choice(["../f.txt", "../../g/f.txt", "../s/../f.txt", "../"])
            elif pchoice == "abs_in":
                p = os.path.join(root, rng.choice(DIRS), "f.txt")
            elif pchoice == "abs_out":
                p = os.path.join(outside, "f.txt")
            elif pchoice == "reenter":
                # a relative path that leaves the root and comes back in by the root's own name
                p = os.path.join(os.path.relpath(base, target_dir), "root",
                                 rng.choice(["f.txt", "a/f.txt", "s/t/f.txt", "x/y/f.txt"]))
            else:
                p = rng.choice([".", "./", "./f.txt", "./s/"])
            p_sp = spell(rng, p) if rng.random() < 0.6 else p
            if p.endswith("/") and not p_sp.endswith("/"):
                p_sp += "/"
            key = (w, dchoice, pchoice, "../" in p_sp or "/./" in p_sp or "//" in p_sp,
                   here_mode, root_mode)
            witness = {"cwd": w, "workdir": d, "path": p_sp, "HERE": os.environ.get("HERE"),
                       "STEPUP_ROOT": os.environ.get("STEPUP_ROOT")}
            truth = rp(target_dir, p_sp)

            # translate
            t = str(translate(p_sp, d))
            counters["translate_checks"] += 1
            counters["evaluations"] += 1
            got = rp(t) if os.path.isabs(t) else rp(root, t)
            if got != truth:
                vio("translate designates another file",
                    f"cwd={w} workdir={d!r} path={p_sp!r}: translate -> {t!r} = {got}, "
                    f"expected {truth}", witness)
            if t != os.path.normpath(t):
                vio("translate result is not normalised", f"{witness} -> {t!r}", witness)
            # one file, one label: whatever the spelling, a file inside the root is known to the
            # director by its path relative to the root (no symbolic links in this tree)
            # (a path or workdir that the caller spells absolute stays absolute by design, see translate())
            # and the director exports STEPUP_ROOT in normal form
            if not os.path.isabs(p_sp) and not os.path.isabs(d) and not w.startswith("..") and \
                    os.environ.get("STEPUP_ROOT") in (None, root) and \
                    (truth == root or truth.startswith(root + os.sep)):
                counters["canonical_label_checks"] = counters.get("canonical_label_checks", 0) + 1
                if pchoice == "reenter":
                    counters["reenter_checks"] = counters.get("reenter_checks", 0) + 1
                canonical = os.path.relpath(truth, root)
                if t.rstrip("/") != canonical and not (canonical == "." and t in (".", "./")):
                    vio("a file inside the root gets a label other than its root-relative path",
                        f"cwd={w} workdir={d!r} path={p_sp!r}: translate -> {t!r}, expected {canonical!r}",
                        witness)
            if w != "." or dchoice != "dot" or pchoice != "rel":
                nontrivial.add(json.dumps(key))

            # translate_back of what the director would store
            back = str(translate_back(t, d))
            counters["translate_back_checks"] += 1
            counters["evaluations"] += 1
            got_back = rp(target_dir, back)
            want_back = rp(t) if os.path.isabs(t) else rp(root, t)
            if got_back != want_back:
                vio("translate_back designates another file",
                    f"cwd={w} workdir={d!r} stored={t!r}: translate_back -> {back!r} = "
                    f"{got_back}, expected {want_back}", witness)

            # identity on normalised root-relative paths, caller at the root
            if w == "." and not os.path.isabs(t):
                t2 = str(translate(t))
                counters["identity_checks"] += 1
                counters["evaluations"] += 1
                if t2 != t:
                    vio("translate changes a normalised root-relative path",
                        f"{t!r} -> {t2!r}", witness)

            # affixes, as api.py uses them (default workdir)
            try:
                kept = str(_keep_affixes(p_sp, translate))
            except PathError:
                counters["path_errors"] += 1
            else:
                counters["affix_checks"] += 1
                counters["evaluations"] += 1
                body = p_sp[:-1] if p_sp.endswith("/") else p_sp
                want_lead = body.startswith("./")
                want_trail = p_sp.endswith("/")
                kept_body = kept[:-1] if kept.endswith("/") else kept
                if want_trail != kept.endswith("/") or want_lead != kept_body.startswith("./"):
                    vio("_keep_affixes loses or invents an affix",
                        f"cwd={w} path={p_sp!r} -> {kept!r}", witness)
                truth0 = rp(cwd, p_sp)
                got0 = rp(kept) if os.path.isabs(kept) else rp(root, kept)
                if got0 != truth0:
                    vio("_keep_affixes(translate) designates another file",
                        f"cwd={w} path={p_sp!r} -> {kept!r} = {got0}, expected {truth0}", witness)
    finally:
        os.chdir(saved_cwd)
        for k, v in saved_env.items():
            if v is None:
                os.environ.pop(k, None)
            else:
                os.environ[k] = v
    return {
        "status": "violation" if violations else "held",
        "violations": violations,
        "counters": counters,
        "nontrivial": sorted(nontrivial),
        "nontrivial_many": True,
        "sample": {"kind": "pure", "keys": sorted(nontrivial)[:3]},
    }


# ---------------------------------------------------------------------------------------------
# Part B
# ---------------------------------------------------------------------------------------------

WORKER = '''#!/usr/bin/env python3
import json, os, sys
from stepup.core.api import amend, get_info

def main():
    spec = json.loads(sys.argv[1])
    here = os.path.dirname(os.path.abspath(__file__))
    rec = {"id": spec["id"], "cwd": os.path.realpath(os.getcwd()),
           "ROOT": os.environ.get("ROOT"), "HERE": os.environ.get("HERE"),
           "inp": [], "out": [], "amend_inp": [], "amend_out": [], "vol": [], "amend_vol": []}
    if spec.get("amend_inp") or spec.get("amend_out") or spec.get("amend_vol"):
        amend(inp=spec.get("amend_inp", []), out=spec.get("amend_out", []), vol=spec.get("amend_vol", []))
    for key in ("inp", "amend_inp"):
        for p in spec.get(key, []):
            with open(p) as fh:
                fh.read()
            rec[key].append(os.path.realpath(p))
    for key in ("out", "amend_out", "vol", "amend_vol"):
        for p in spec.get(key, []):
            with open(p, "w") as fh:
                fh.write(spec["id"])
            rec[key].append(os.path.realpath(p))
    info = get_info()
    rec["info_inp"] = [os.path.realpath(str(p)) for p in info.inp]
    rec["info_out"] = [os.path.realpath(str(p)) for p in info.out]
    rec["info_vol"] = [os.path.realpath(str(p)) for p in info.vol]
    rec["info_workdir"] = str(info.workdir)
    with open(os.path.join(here, "..", "steplog.jsonl"), "a") as fh:
        fh.write(json.dumps(rec) + "\\n")

main()
'''


def run_real(case):
    rng = random.Random(case["seed"])
    base = os.path.realpath(os.getcwd())
    root = os.path.join(base, "proj")
    outside = os.path.join(base, "outside")
    os.makedirs(os.path.join(root, "tools"))
    os.makedirs(os.path.join(root, "src", "deep"))
    os.makedirs(outside)
    with open(os.path.join(root, "tools", "w.py"), "w") as fh:
        fh.write(WORKER)
    os.chmod(os.path.join(root, "tools", "w.py"), 0o755)
    sources = ["src/s0.txt", "src/s1.txt", "src/deep/s2.txt", "top.txt"]
    for s in sources:
        with open(os.path.join(root, s), "w") as fh:
            fh.write(s)
    with open(os.path.join(outside, "o.txt"), "w") as fh:
        fh.write("outside")
    out_rel = os.path.relpath(os.path.join(outside, "o.txt"), root)

    plan_dirs = rng.sample(["a", "a/b", "x", "x/y", "a/x"], rng.choice([2, 3]))
    steps = []  # (id, plan_dir, workdir arg, spec, declared inp spellings, out spellings)
    sid = 0
    plans = {".": []}
    for pd in plan_dirs:
        plans[pd] = []
    for pd in plans:
        for _ in range(rng.choice([1, 2])):
            sid += 1
            d = rng.choice([".", ".", "w1", "w1/w2", "..", "../sib"]) if pd != "." else \
                rng.choice([".", "w1", "w1/w2"])
            step_dir = os.path.normpath(os.path.join(root, pd, d))
            if not step_dir.startswith(root):
                d = "."
                step_dir = os.path.normpath(os.path.join(root, pd))

            def rel(target):
                return os.path.relpath(os.path.join(root, target), step_dir)

            inp_files = rng.sample(sources, rng.choice([1, 2]))
            if rng.random() < 0.3:
                inp_files.append(out_rel)
            amend_files = [s for s in sources if s not in inp_files][:rng.choice([0, 1])]
            spec = {
                "id": f"s{sid}",
                "inp": [spell(rng, rel(f)) for f in inp_files],
                "out": [spell(rng, f"out_s{sid}.txt") if rng.random() < 0.7
                        else spell(rng, f"o/out_s{sid}.txt")],
                "amend_inp": [spell(rng, rel(f)) for f in amend_files],
                "amend_out": [spell(rng, f"am_s{sid}.txt")] if rng.random() < 0.4 else [],
                "vol": [spell(rng, f"vol_s{sid}.log")] if rng.random() < 0.5 else [],
                "amend_vol": [spell(rng, f"o/avol_s{sid}.log")] if rng.random() < 0.3 else [],
            }
            worker = rel("tools/w.py")
            if not worker.startswith("."):
                worker = "./" + worker
            plans[pd].append((spec, d, worker))
            steps.append((spec, pd, d, step_dir))

    def plan_text(pd):
        lines = ["#!/usr/bin/env python3", "import json", "from shlex import quote as shq",
                 "from stepup.core.api import plan, static, step"]
        if pd == ".":
            statics = [*sources, "tools/w.py", out_rel]
            for other in plan_dirs:
                statics.append(other + "/plan.py")
            lines.append(f"static({sorted(set(statics))!r})")
            for other in plan_dirs:
                lines.append(f"plan('./plan.py', workdir={other + '/'!r})")
        for spec, d, worker in plans[pd]:
            cmd = f"{worker} ' + shq(json.dumps({spec!r})) + '"
            lines.append(
                f"step('{worker} ' + shq(json.dumps({spec!r})), inp={[worker] + spec['inp']!r}, "
                f"out={spec['out']!r}, vol={spec['vol']!r}, workdir={d!r})")
            del cmd
        return "\n".join(lines) + "\n"

    for pd in plans:
        os.makedirs(os.path.join(root, pd), exist_ok=True)
        path = os.path.join(root, pd, "plan.py")
        with open(path, "w") as fh:
            fh.write(plan_text(pd))
        os.chmod(path, stat.S_IRWXU)

    env = dict(os.environ)
    env["PATH"] = "/venv/bin:" + env.get("PATH", "/usr/bin:/bin")
    for k in list(env):
        if k.startswith("STEPUP_") or k in ("HERE", "ROOT"):
            del env[k]
    env["STEPUP_DEBUG"] = "1"
    proc = subprocess.run(
        ["/venv/bin/stepup", "build", "-j", str(rng.choice([1, 3])), "--no-progress"],
        cwd=root, env=env, capture_output=True, text=True, timeout=200,
    )
    counters = dict.fromkeys(["evaluations"] + REQUIRED_COUNTERS, 0)
    build_failed = proc.returncode != 0
    if not os.path.exists(os.path.join(root, "steplog.jsonl")):
        return {"status": "inconclusive",
                "reason": f"generated project did not build: rc={proc.returncode}\n"
                          + proc.stdout[-1500:] + proc.stderr[-500:]}
    records = {}
    with open(os.path.join(root, "steplog.jsonl")) as fh:
        for line in fh:
            rec = json.loads(line)
            records[rec["id"]] = rec
    con = sqlite3.connect(f"file:{os.path.join(root, '.stepup', 'graph.db')}?mode=ro", uri=True)
    violations = []
    nontrivial = []

    def vio(mech, msg, witness):
        if sum(1 for v in violations if v["mechanism"] == mech) < 3:
            violations.append({"mechanism": mech, "message": msg, "witness": witness})

    def rp_label(label):
        return os.path.realpath(label if os.path.isabs(label) else os.path.join(root, label))

    try:
        for spec, pd, d, step_dir in steps:
            rec = records.get(spec["id"])
            if rec is None:
                if not build_failed:
                    vio("step did not run", f"{spec['id']} not in the step log", {"spec": spec})
                continue
            row = con.execute(
                "SELECT node.i, node.label FROM node JOIN step ON step.node = node.i "
                "WHERE NOT node.detached AND node.label LIKE ?", (f"%\"id\": \"{spec['id']}\"%",)
            ).fetchone()
            witness = {"spec": spec, "plan_dir": pd, "workdir_arg": d, "record": rec,
                       "plans": {p: plan_text(p) for p in plans}}
            if row is None:
                if not build_failed:
                    vio("step not in the graph", spec["id"], witness)
                continue
            node_i, label = row
            workdir = label.split("  # wd=", 1)[1] if "  # wd=" in label else "."
            counters["real_steps_checked"] += 1
            counters["evaluations"] += 1
            nontrivial.append(f"{case['seed']}:{spec['id']}:{pd}:{d}")
            if os.path.realpath(os.path.join(root, workdir)) != rec["cwd"] or \
                    rec["cwd"] != os.path.realpath(step_dir):
                vio("stored workdir is not where the step ran",
                    f"{spec['id']}: stored {workdir!r}, ran in {rec['cwd']}, intended {step_dir}",
                    witness)
            if os.path.realpath(os.path.join(rec["cwd"], rec["ROOT"])) != os.path.realpath(root):
                vio("ROOT does not designate the project root", f"{rec}", witness)
            if os.path.realpath(os.path.join(root, rec["HERE"])) != rec["cwd"]:
                vio("HERE does not designate the step's directory", f"{rec}", witness)
            inp_labels = [r[0] for r in con.execute(
                "SELECT node.label FROM dependency JOIN node ON node.i = dependency.source "
                "WHERE dependency.sink = ?", (node_i,))]
            out_labels = [r[0] for r in con.execute(
                "SELECT node.label FROM dependency JOIN node ON node.i = dependency.sink "
                "WHERE dependency.source = ?", (node_i,))]
            worker_real = os.path.realpath(os.path.join(root, "tools", "w.py"))
            got_inp = sorted(rp_label(l) for l in inp_labels)
            want_inp = sorted(set(rec["inp"] + rec["amend_inp"] + [worker_real]))
            got_out = sorted(rp_label(l) for l in out_labels)
            want_out = sorted(set(rec["out"] + rec["amend_out"] + rec["vol"] + rec["amend_vol"]))
            counters["real_paths_compared"] += len(got_inp) + len(got_out)
            if got_inp != want_inp:
                vio("stored input labels do not designate the files the step opened",
                    f"{spec['id']}: labels {inp_labels} -> {got_inp}, opened {want_inp}", witness)
            if got_out != want_out:
                vio("stored output labels do not designate the files the step wrote",
                    f"{spec['id']}: labels {out_labels} -> {got_out}, wrote {want_out}", witness)
            for l in inp_labels + out_labels:
                if not os.path.isabs(l) and l != os.path.normpath(l):
                    vio("stored label is not normalised", l, witness)
            want_info_inp = sorted(set(rec["inp"] + [worker_real]))
            if sorted(rec.get("info_vol", [])) != sorted(rec["vol"]):
                vio("get_info() paths do not designate the declared files from the step's directory",
                    f"{spec['id']}: info_vol={rec.get('info_vol')} want {rec['vol']}", witness)
            if sorted(rec["info_inp"]) != want_info_inp or sorted(rec["info_out"]) != sorted(rec["out"]):
                vio("get_info() paths do not designate the declared files from the step's directory",
                    f"{spec['id']}: info_inp={rec['info_inp']} want {want_info_inp}; "
                    f"info_out={rec['info_out']} want {rec['out']}", witness)
    finally:
        con.close()
        shutil.rmtree(root, ignore_errors=True)
    if build_failed and not violations:
        # A failing build of a generated project is not by itself a violation of this property.
        return {"status": "inconclusive", "counters": counters,
                "reason": f"generated project did not build: rc={proc.returncode}\n"
                          + proc.stdout[-1500:] + proc.stderr[-500:]}
    return {
        "status": "violation" if violations else "held",
        "violations": violations,
        "counters": counters,
        "nontrivial": nontrivial,
        "nontrivial_many": True,
        "sample": {"kind": "real", "plan_dirs": plan_dirs, "steps": len(steps)},
    }
