"""C16: remote calls are answered exactly once and correctly paired.

E8: the real `RPCServerConnection` is served on a controlled in-memory transport
(`asyncio.StreamReader.feed_data` in chosen fragments, a capturing writer), and the real
`SocketRPCServer` / `SocketAsyncRPCClient` / `SocketSyncRPCClient` on real Unix sockets behind
a relay that chops the byte stream.  The oracle is an offline check of the recorded history:
(call sent, bytes delivered, reply frames parsed by an independent frame parser, value or
exception class at the client).

Every call echoes a unique token, so a reply identifies the request it belongs to.
"""

from __future__ import annotations

import asyncio
import os
import pickle
import random
import socket
import struct
import threading
import time

PROPERTY = "C16"
LEVEL = "exploration"
RULE = (
    "distinct (number of calls, call-kind multiset, fragmentation class, completion order class, "
    "fault kind and position class) scenarios with at least two calls in flight or a fault"
)
TIMEOUT = 300
REQUIRED_COUNTERS = ["mem_scenarios", "mem_calls_delivered", "replies_parsed", "fault_scenarios",
                     "sock_scenarios", "sock_calls", "sync_client_calls", "sync_timeouts",
                     "name_probes", "exhaustive_splits"]
ASSUMPTIONS = [
    "the close message or EOF is sent only after every expected reply was parsed (the module "
    "documents that a reply not yet written may be dropped once the peer said it is done); in "
    "the deliberate disconnect scenarios the oracle is: at most one reply per call, none "
    "mispaired, the connection ends, fully delivered calls are executed",
    "handlers return picklable values, as every DirectorHandler procedure does",
]


def gen_cases(tier, seed):
    nmem, nsock = (24, 8) if tier == "quick" else (200, 60)
    cases = [{"id": f"c16-mem-{seed}-{i}", "seed": seed * 7477 + i, "kind": "mem",
              "n": 40 if tier == "quick" else 150} for i in range(nmem)]
    cases += [{"id": f"c16-sock-{seed}-{i}", "seed": seed * 7477 + 500 + i, "kind": "sock"}
              for i in range(nsock)]
    cases.append({"id": f"c16-names-{seed}", "seed": seed, "kind": "names"})
    cases.append({"id": f"c16-exh-{seed}", "seed": seed, "kind": "exhaustive"})
    return cases


# ---------------------------------------------------------------------------------------------
# Handler under test
# ---------------------------------------------------------------------------------------------


def make_handler():
    from stepup.core import exceptions as E
    from stepup.core.rpc import allow_rpc

    usage_classes = [E.GraphError, E.CyclicError, E.AmendWhileHoldingError, E.StepUpError,
                     E.PathError, E.EnvVarError, E.ToolError, E.ConfigError, E.UsageError]

    class Handler:
        def __init__(self):
            self.gates = {}
            self.started = []
            self.finished = []
            self.canary_hits = []

        def gate(self, token):
            return self.gates.setdefault(token, asyncio.Event())

        @allow_rpc
        async def echo(self, token, payload=b"", gated=False):
            self.started.append(token)
            if gated:
                await self.gate(token).wait()
            self.finished.append(token)
            return ("echo", token, len(payload), payload[:8])

        @allow_rpc
        def sync_echo(self, token, payload=b""):
            self.started.append(token)
            self.finished.append(token)
            return ("echo", token, len(payload), payload[:8])

        @allow_rpc
        async def fail_usage(self, token, cls_i, gated=False):
            self.started.append(token)
            if gated:
                await self.gate(token).wait()
            self.finished.append(token)
            raise usage_classes[cls_i % len(usage_classes)](f"usage {token}")

        @allow_rpc
        async def fail_internal(self, token, which=0):
            self.started.append(token)
            self.finished.append(token)
            if which % 3 == 0:
                raise ValueError(f"internal {token}")
            if which % 3 == 1:
                raise E.ConsistencyError(f"internal {token}")
            raise KeyError(token)

        @allow_rpc
        async def cancelled(self, token):
            self.started.append(token)
            self.finished.append(token)
            raise asyncio.CancelledError()

        def secret(self, token="x"):
            self.canary_hits.append(("secret", token))
            return "leak"

        def _private(self, token="x"):
            self.canary_hits.append(("_private", token))
            return "leak"

    return Handler(), usage_classes


KINDS = ["echo", "echo", "echo_gated", "echo_gated", "sync_echo", "fail_usage", "fail_usage_gated",
         "fail_internal", "cancelled", "unknown", "private", "dunder", "canary", "badargs", "big"]


def make_call(RPCCall, rng, kind, token):
    if kind == "echo":
        return RPCCall("echo", (token,), {"payload": os.urandom(rng.choice([0, 1, 10, 300]))})
    if kind == "echo_gated":
        return RPCCall("echo", (token,), {"gated": True})
    if kind == "sync_echo":
        return RPCCall("sync_echo", (token, b"abc"), {})
    if kind == "fail_usage":
        return RPCCall("fail_usage", (token, rng.randrange(9)), {})
    if kind == "fail_usage_gated":
        return RPCCall("fail_usage", (token, rng.randrange(9)), {"gated": True})
    if kind == "fail_internal":
        return RPCCall("fail_internal", (token, rng.randrange(3)), {})
    if kind == "cancelled":
        return RPCCall("cancelled", (token,), {})
    if kind == "unknown":
        return RPCCall("no_such_procedure", (token,), {})
    if kind == "private":
        return RPCCall("_private", (token,), {})
    if kind == "dunder":
        return RPCCall(rng.choice(["__init__", "__class__", "__getattribute__", "__dict__",
                                   "__reduce__"]), (), {})
    if kind == "canary":
        return RPCCall("secret", (token,), {})
    if kind == "badargs":
        return RPCCall("echo", (token,), {"nope": 1})
    if kind == "big":
        return RPCCall("echo", (token,), {"payload": os.urandom(rng.choice([70000, 300000, 1 << 20]))})
    raise AssertionError(kind)


def frame(call_id, body):
    """Independent encoder of the documented wire format."""
    if body is None:
        return struct.pack(">QQ", call_id, 0)
    return struct.pack(">QQ", call_id, len(body)) + body


def parse_frames(data):
    """Independent frame parser: returns (frames, leftover bytes)."""
    frames = []
    pos = 0
    while len(data) - pos >= 16:
        call_id, size = struct.unpack(">QQ", data[pos:pos + 16])
        if len(data) - pos - 16 < size:
            break
        frames.append((call_id, data[pos + 16:pos + 16 + size] if size else None))
        pos += 16 + size
    return frames, data[pos:]


def check_reply(ctx, kind, call, token, body, usage_classes):
    """Check one reply body against the call it must answer; returns a problem text or None."""
    from stepup.core.exceptions import RPCError
    from stepup.core.rpc import RemoteFailure, _decode_response

    if body is None:
        return "empty reply (server could not send)"
    try:
        value = pickle.loads(body)
    except Exception as exc:  # noqa: BLE001
        return f"reply does not unpickle: {exc}"
    # What the real client would hand to the caller.
    try:
        client_value = _decode_response(body, call, server_log_description=None)
        client_exc = None
    except BaseException as exc:  # noqa: BLE001
        client_value, client_exc = None, exc
    if kind in ("echo", "echo_gated", "sync_echo", "big"):
        payload = call.kwargs.get("payload", call.args[1] if len(call.args) > 1 else b"")
        want = ("echo", token, len(payload), payload[:8])
        if value != want:
            return f"value {value!r} belongs to another call, expected {want!r}"
        if client_exc is not None or client_value != want:
            return f"client would get {client_exc!r}/{client_value!r}"
        return None
    if not isinstance(value, RemoteFailure):
        return f"expected a failure reply, got {value!r}"
    if kind in ("fail_usage", "fail_usage_gated"):
        cls = usage_classes[call.args[1] % len(usage_classes)]
        if not value.usage or value.message != f"usage {token}":
            return f"usage failure mangled: {value.qualname} {value.message!r} usage={value.usage}"
        if os.environ.get("STEPUP_DEBUG"):
            return None
        if type(client_exc) is not cls or str(client_exc) != f"usage {token}":
            return f"client raises {client_exc!r}, expected {cls.__name__}('usage {token}')"
        return None
    # internal faults and refused procedures: a generic remote-call error
    if value.usage:
        return f"internal fault flagged as usage error: {value.qualname}"
    if type(client_exc) is not RPCError:
        return f"client raises {client_exc!r}, expected RPCError"
    if kind in ("fail_internal", "canary", "private", "unknown", "badargs") and \
            kind == "fail_internal" and token not in value.traceback_text + value.message:
        return "failure reply does not belong to this call"
    return None


# ---------------------------------------------------------------------------------------------
# In-memory transport
# ---------------------------------------------------------------------------------------------


class CaptureWriter:
    """Stands in for asyncio.StreamWriter: records what the server writes."""

    def __init__(self, fail_after=None):
        self.data = bytearray()
        self.closed = False
        self.fail_after = fail_after
        self.transport = self

    def write(self, data):
        if self.fail_after is not None and len(self.data) + len(data) > self.fail_after:
            self.broken = True
        self.data += data

    async def drain(self):
        await asyncio.sleep(0)
        if getattr(self, "broken", False):
            raise ConnectionResetError("peer gone")

    def close(self):
        self.closed = True

    async def wait_closed(self):
        return

    def abort(self):
        self.closed = True

    def is_closing(self):
        return self.closed

    def get_extra_info(self, *a, **k):
        return None


async def spin(n=3):
    for _ in range(n):
        await asyncio.sleep(0)


async def mem_scenario(ctx, rng, forced=None):
    """Run one scenario; returns the length of the request stream."""
    from stepup.core.rpc import RPCCall, RPCServerConnection, _encode_body

    handler, usage_classes = make_handler()
    forced = forced or {}
    ncalls = forced.get("ncalls", rng.choice([1, 1, 2, 3, 5, 8, 16, 32, 64]))
    kinds = forced.get("kinds") or [rng.choice(KINDS) for _ in range(ncalls)]
    if sum(k == "big" for k in kinds) > 2:
        kinds = [k if k != "big" else "echo" for k in kinds]
    ids = rng.sample(range(1, 1 << 40), ncalls)
    calls = []
    stream = b""
    bounds = []
    for i, kind in enumerate(kinds):
        token = f"t{i}-{rng.randrange(1 << 30)}"
        call = make_call(RPCCall, rng, kind, token)
        body = _encode_body(call)
        fr = frame(ids[i], body)
        bounds.append((len(stream), len(stream) + len(fr)))
        stream += fr
        calls.append((ids[i], kind, call, token))
    fault = forced.get("fault", rng.choice([None, None, None, "eof", "reset", "oversize",
                                            "garbage_body", "not_rpccall", "writer_dies"]))
    cut = len(stream)
    tail = b""
    if fault in ("eof", "reset"):
        cut = rng.randrange(len(stream) + 1)
        if forced.get("cut_index") is not None:
            cut = min(forced["cut_index"], len(stream))
    elif fault == "oversize":
        cut = bounds[rng.randrange(len(bounds))][0] if rng.random() < 0.7 else len(stream)
        tail = struct.pack(">QQ", 7, (1 << 32) + 1 + rng.randrange(1000)) + b"xx"
    elif fault == "garbage_body":
        cut = bounds[rng.randrange(len(bounds))][0] if rng.random() < 0.7 else len(stream)
        junk = os.urandom(rng.choice([1, 5, 40]))
        tail = frame(9, junk)
    elif fault == "not_rpccall":
        cut = bounds[rng.randrange(len(bounds))][0] if rng.random() < 0.7 else len(stream)
        tail = frame(11, pickle.dumps({"name": "echo"}))
    delivered = [c for c, (a, b) in zip(calls, bounds) if b <= cut]
    data = stream[:cut] + tail
    # fragmentation
    splits = None
    if forced.get("split_index") is not None and len(data) >= 2:
        splits = [min(forced["split_index"], len(data) - 1)]
    if splits is None:
        mode = rng.choice(["whole", "bytes", "random", "random", "frames"])
        if mode == "whole" or len(data) < 2:
            splits = []
        elif mode == "bytes" and len(data) < 400:
            splits = list(range(1, len(data)))
        elif mode == "frames":
            splits = sorted({b for _, b in bounds if b < len(data)})
        else:
            k = rng.randint(1, min(12, len(data) - 1))
            splits = sorted(rng.sample(range(1, len(data)), k))
    else:
        mode = "forced"
    fragments = [data[a:b] for a, b in zip([0] + splits, splits + [len(data)])] if data else []

    reader = asyncio.StreamReader()
    writer = CaptureWriter(fail_after=rng.randrange(10, 400) if fault == "writer_dies" else None)
    conn = RPCServerConnection(handler, reader, writer)
    task = asyncio.create_task(conn.serve())
    gated_tokens = [tok for _, kind, _, tok in delivered if kind.endswith("_gated")]
    rng.shuffle(gated_tokens)
    release_order = list(gated_tokens)
    for frag in fragments:
        reader.feed_data(frag)
        await spin(rng.choice([0, 1, 3]))
        if release_order and rng.random() < 0.3:
            handler.gate(release_order.pop()).set()
    # let every handler finish
    await spin(3)
    while release_order:
        handler.gate(release_order.pop()).set()
        await spin(rng.choice([0, 2]))
    expected_replies = len(delivered)
    steps = 0
    if fault is None:
        # Wait (in loop iterations, not wall time) until all replies were written.
        while steps < 20000:
            frames, _ = parse_frames(bytes(writer.data))
            if len(frames) >= expected_replies or task.done():
                break
            await asyncio.sleep(0)
            steps += 1
        reader.feed_data(frame(1 << 41, None))  # the close message
        await spin(2)
        reader.feed_eof()
    elif fault == "eof":
        reader.feed_eof()
    elif fault == "reset":
        reader.set_exception(ConnectionResetError("reset by peer"))
    elif fault == "writer_dies":
        await spin(20)
        reader.feed_eof()
    else:
        await spin(2)
        reader.feed_eof()
    # All gates open: the connection must end by itself.
    for tok in list(handler.gates):
        handler.gate(tok).set()
    t0 = time.monotonic()
    ended = False
    for _ in range(200000):
        if task.done():
            ended = True
            break
        await asyncio.sleep(0)
        if time.monotonic() - t0 > 20:
            break
    witness = {"kinds": kinds, "fault": fault, "cut": cut, "stream_len": len(stream),
               "splits": splits if len(splits) < 50 else f"{len(splits)} splits", "mode": mode}
    if not ended:
        task.cancel()
        ctx.vio("connection does not end after the peer is gone",
                f"serve() still running after EOF with all handlers released: {witness}", witness)
        return len(stream)
    exc = task.exception()
    if exc is not None:
        from stepup.core.exceptions import RPCError

        def only_rpc_errors(e):
            if isinstance(e, BaseExceptionGroup):
                return all(only_rpc_errors(x) for x in e.exceptions)
            return isinstance(e, RPCError)

        if not (fault in ("oversize", "garbage_body", "not_rpccall") and only_rpc_errors(exc)):
            ctx.vio("connection task dies with an unexpected exception",
                    f"{exc!r} in {witness}", witness)
    frames, leftover = parse_frames(bytes(writer.data))
    ctx.counters["mem_scenarios"] += 1
    ctx.counters["evaluations"] += 1
    ctx.counters["mem_calls_delivered"] += len(delivered)
    ctx.counters["replies_parsed"] += len(frames)
    if fault:
        ctx.counters["fault_scenarios"] += 1
    if leftover and fault != "writer_dies":
        ctx.vio("server wrote a partial frame", f"{len(leftover)} stray bytes: {witness}", witness)
    by_id = {}
    for cid, body in frames:
        by_id.setdefault(cid, []).append(body)
    known = {cid: (kind, call, tok) for cid, kind, call, tok in calls}
    delivered_ids = {cid for cid, *_ in delivered}
    for cid, bodies in by_id.items():
        if cid not in known or cid not in delivered_ids:
            ctx.vio("reply with a call id that was never asked",
                    f"id {cid} in {witness}", witness)
            continue
        if len(bodies) > 1:
            ctx.vio("two replies for one call", f"id {cid} x{len(bodies)}: {witness}", witness)
        kind, call, tok = known[cid]
        for body in bodies:
            problem = check_reply(ctx, kind, call, tok, body, usage_classes)
            if problem:
                ctx.vio("reply does not belong to its call or has the wrong class",
                        f"{kind} {tok}: {problem}; {witness}", {**witness, "kind": kind})
    if fault is None:
        missing = [known[cid][0] for cid in delivered_ids if cid not in by_id]
        if missing:
            ctx.vio("fully delivered call got no reply",
                    f"kinds without reply: {missing}; {witness}", witness)
    if fault in (None, "eof"):
        # A request received in full is executed, whatever happens to the peer afterwards.
        # Not asserted after an injected reset: `StreamReader.set_exception` makes the reads
        # fail before the bytes still buffered are consumed, and a director never sees a reset
        # with unconsumed requests from its own clients (they have one call in flight and have
        # read every earlier reply, so their death closes the socket with a clean EOF).
        runnable = [tok for _, kind, _, tok in delivered
                    if kind in ("echo", "echo_gated", "sync_echo", "fail_usage", "fail_usage_gated",
                                "fail_internal", "cancelled", "big")]
        not_run = [tok for tok in runnable if tok not in handler.finished]
        if not_run:
            ctx.vio("fully delivered call was not executed",
                    f"{len(not_run)} of {len(runnable)} handlers did not finish; {witness}", witness)
    if handler.canary_hits:
        ctx.vio("procedure without @allow_rpc was executed", f"{handler.canary_hits}", witness)
    if ncalls >= 2 or fault:
        frag_class = "whole" if not splits else ("bytes" if len(splits) == len(data) - 1 else
                                                 ("few" if len(splits) < 5 else "many"))
        ctx.nontrivial.add(repr((min(ncalls, 9), tuple(sorted(set(kinds))), frag_class,
                                 len(gated_tokens) > 1, fault,
                                 None if not fault else (cut == 0, cut == len(stream)))))
    return len(stream)


# ---------------------------------------------------------------------------------------------
# Real sockets
# ---------------------------------------------------------------------------------------------


async def relay(listen_path, target_path, rng, stop):
    """A Unix-socket relay that forwards bytes in randomly sized fragments with yields."""

    async def pump(reader, writer):
        try:
            while True:
                data = await reader.read(rng.choice([1, 3, 17, 100, 4096, 65536]))
                if not data:
                    break
                pos = 0
                while pos < len(data):
                    n = rng.choice([1, 2, 5, 16, 64, 1000, 100000])
                    writer.write(data[pos:pos + n])
                    await writer.drain()
                    pos += n
                    if rng.random() < 0.3:
                        await asyncio.sleep(0)
        except (ConnectionError, asyncio.CancelledError):
            pass
        finally:
            try:
                writer.close()
            except Exception:  # noqa: BLE001
                pass

    async def on_client(creader, cwriter):
        sreader, swriter = await asyncio.open_unix_connection(target_path)
        await asyncio.gather(pump(creader, swriter), pump(sreader, cwriter))

    server = await asyncio.start_unix_server(on_client, listen_path)
    await stop.wait()
    server.close()


async def sock_scenario(ctx, rng, workdir):
    from stepup.core.exceptions import RPCClientUnusableError, RPCError
    from stepup.core.rpc import (RPCCall, SocketAsyncRPCClient, SocketRPCServer,
                                 SocketSyncRPCClient, _encode_body)

    handler, usage_classes = make_handler()
    spath = os.path.join(workdir, "s.sock")
    rpath = os.path.join(workdir, "r.sock")
    stop = asyncio.Event()
    relay_stop = asyncio.Event()
    server = SocketRPCServer(handler, spath)
    server_task = asyncio.create_task(server.serve(stop))
    relay_task = asyncio.create_task(relay(rpath, spath, rng, relay_stop))
    for _ in range(2000):
        if os.path.exists(spath) and os.path.exists(rpath):
            break
        await asyncio.sleep(0.001)
    witness = {"seed": "see case"}
    results = []
    nclients = rng.choice([1, 2, 4])
    clients = [SocketAsyncRPCClient(rng.choice([spath, rpath])) for _ in range(nclients)]
    counter = [0]

    async def one_call(client, kind):
        counter[0] += 1
        token = f"s{counter[0]}-{rng.randrange(1 << 30)}"
        call = make_call(RPCCall, rng, kind, token)
        try:
            value = await client(call.name, *call.args, **call.kwargs)
            results.append((kind, call, token, value, None))
        except BaseException as exc:  # noqa: BLE001
            results.append((kind, call, token, None, exc))

    ncalls = rng.choice([2, 5, 12, 40, 64])
    kinds = [rng.choice([k for k in KINDS]) for _ in range(ncalls)]
    if sum(k == "big" for k in kinds) > 2:
        kinds = [k if k != "big" else "echo" for k in kinds]
    tasks = [asyncio.create_task(one_call(rng.choice(clients), kind)) for kind in kinds]

    # A rogue raw connection misbehaves while the good clients are busy.
    rogue = rng.choice([None, "garbage", "partial_hang", "oversize", "abort_after_request"])
    rogue_sock = None
    rogue_token = None
    if rogue:
        rogue_sock = socket.socket(socket.AF_UNIX)
        rogue_sock.setblocking(True)
        rogue_sock.connect(spath)
        if rogue == "garbage":
            rogue_sock.sendall(os.urandom(50))
        elif rogue == "partial_hang":
            body = _encode_body(RPCCall("echo", ("rogue",), {}))
            rogue_sock.sendall(frame(3, body)[:20])
        elif rogue == "oversize":
            rogue_sock.sendall(struct.pack(">QQ", 1, (1 << 33)))
        elif rogue == "abort_after_request":
            rogue_token = f"rogue-{rng.randrange(1 << 30)}"
            body = _encode_body(RPCCall("echo", (rogue_token,), {"gated": True}))
            rogue_sock.sendall(frame(3, body))
            if rng.random() < 0.5:
                rogue_sock.setsockopt(socket.SOL_SOCKET, socket.SO_LINGER, struct.pack("ii", 1, 0))
            rogue_sock.close()
            rogue_sock = None

    # Release the gated handlers in a random order while the calls are in flight.
    released = set()
    for _ in range(400):
        await asyncio.sleep(0.001)
        pending_gates = [tok for tok in handler.gates if tok not in released]
        rng.shuffle(pending_gates)
        for tok in pending_gates[: rng.choice([1, 2, 5])]:
            handler.gate(tok).set()
            released.add(tok)
        if all(t.done() for t in tasks):
            break
    for tok in handler.gates:
        handler.gate(tok).set()
    done, pending = await asyncio.wait(tasks, timeout=30)
    ctx.counters["sock_scenarios"] += 1
    ctx.counters["evaluations"] += 1
    if pending:
        for t in pending:
            t.cancel()
        ctx.vio("calls on a healthy connection make no progress",
                f"{len(pending)} of {len(tasks)} calls still pending; rogue={rogue}", witness)
    for kind, call, token, value, exc in results:
        ctx.counters["sock_calls"] += 1
        problem = None
        if kind in ("echo", "echo_gated", "sync_echo", "big"):
            payload = call.kwargs.get("payload", call.args[1] if len(call.args) > 1 else b"")
            want = ("echo", token, len(payload), payload[:8])
            if exc is not None or value != want:
                problem = f"got {exc!r}/{value!r}, expected {want!r}"
        elif kind in ("fail_usage", "fail_usage_gated"):
            cls = usage_classes[call.args[1] % len(usage_classes)]
            if type(exc) is not cls or str(exc) != f"usage {token}":
                problem = f"got {exc!r}, expected {cls.__name__}"
        else:
            if type(exc) is not RPCError:
                problem = f"got {exc!r}/{value!r}, expected RPCError"
        if problem:
            ctx.vio("async client: wrong value or class for a call",
                    f"{kind} {token}: {problem}; rogue={rogue} nclients={nclients}", witness)
    if handler.canary_hits:
        ctx.vio("procedure without @allow_rpc was executed", f"{handler.canary_hits}", witness)
    if rogue_token is not None:
        # A request that arrived in full before the peer vanished is still executed.
        for _ in range(300):
            if rogue_token in handler.finished:
                break
            handler.gate(rogue_token).set()
            await asyncio.sleep(0.001)
        if rogue_token not in handler.finished:
            ctx.vio("fully delivered call was not executed",
                    "request followed by an immediate close of the peer was dropped", witness)

    # The synchronous client, in a thread, through the relay.
    sync_log = []

    def sync_work():
        client = SocketSyncRPCClient(rpath)
        try:
            for i in range(rng.choice([3, 8])):
                token = f"y{i}-{rng.randrange(1 << 30)}"
                payload = os.urandom(rng.choice([0, 5, 5000, 200000]))
                try:
                    value = client("echo", token, payload=payload, _rpc_timeout=20.0)
                    sync_log.append(("echo", token, payload, value, None))
                except BaseException as exc:  # noqa: BLE001
                    sync_log.append(("echo", token, payload, None, exc))
            try:
                client("fail_usage", "yy", 0, _rpc_timeout=20.0)
                sync_log.append(("usage", "yy", b"", "no exception", None))
            except BaseException as exc:  # noqa: BLE001
                sync_log.append(("usage", "yy", b"", None, exc))
            # A gated call that is not released in time: the timeout must fire and the
            # client must refuse further use.
            try:
                client("echo", "never", gated=True, _rpc_timeout=0.05)
                sync_log.append(("timeout", "never", b"", "no exception", None))
            except BaseException as exc:  # noqa: BLE001
                sync_log.append(("timeout", "never", b"", None, exc))
            try:
                client("echo", "after", _rpc_timeout=5.0)
                sync_log.append(("after", "after", b"", "no exception", None))
            except BaseException as exc:  # noqa: BLE001
                sync_log.append(("after", "after", b"", None, exc))
        finally:
            client.close()

    await asyncio.to_thread(sync_work)
    handler.gate("never").set()
    from stepup.core.exceptions import GraphError
    for what, token, payload, value, exc in sync_log:
        ctx.counters["sync_client_calls"] += 1
        if what == "echo":
            want = ("echo", token, len(payload), payload[:8])
            if exc is not None or value != want:
                ctx.vio("sync client: wrong value for a call", f"{token}: {exc!r}/{value!r}", witness)
        elif what == "usage":
            if type(exc) is not GraphError:
                ctx.vio("sync client: usage error not re-raised as its class", f"{exc!r}", witness)
        elif what == "timeout":
            ctx.counters["sync_timeouts"] += 1
            if not isinstance(exc, TimeoutError):
                ctx.vio("sync client: no timeout on an unanswered call", f"{exc!r}/{value!r}", witness)
        elif what == "after":
            if not isinstance(exc, RPCClientUnusableError):
                ctx.vio("sync client usable after a timeout", f"{exc!r}/{value!r}", witness)

    for client in clients:
        try:
            await asyncio.wait_for(client.close(), 10)
        except Exception as exc:  # noqa: BLE001
            ctx.vio("async client close fails", f"{exc!r}", witness)
    # Stopping the server must not wait for the rogue peer that keeps its side open.
    stop.set()
    relay_stop.set()
    try:
        await asyncio.wait_for(server_task, 15)
    except asyncio.TimeoutError:
        ctx.vio("server does not stop while a peer keeps its connection open",
                f"rogue={rogue}", witness)
        server_task.cancel()
    except BaseException as exc:  # noqa: BLE001
        ctx.vio("server task dies", f"{exc!r} rogue={rogue}", witness)
    if rogue_sock is not None:
        rogue_sock.close()
    relay_task.cancel()
    ctx.nontrivial.add(repr(("sock", nclients, min(ncalls, 13), rogue, tuple(sorted(set(kinds))))))


# ---------------------------------------------------------------------------------------------
# Procedure names
# ---------------------------------------------------------------------------------------------


async def names_scenario(ctx):
    from stepup.core.director import DirectorHandler
    from stepup.core.exceptions import RPCError
    from stepup.core.rpc import RPCCall, _call_and_capture_failure, _call_procedure, is_rpc_allowed

    handler = object.__new__(DirectorHandler)
    names = set(dir(DirectorHandler)) | {"__init__", "__class__", "__dict__", "__getattribute__",
                                         "__reduce_ex__", "__setattr__", "__delattr__", "", " ",
                                         "db", "workflow", "scheduler", "builder", "_wire",
                                         "shutdown.__func__", "shutdown()", "nope"}
    allowed = 0
    for name in sorted(names):
        attr = getattr(DirectorHandler, name, None)
        is_allowed = callable(attr) and is_rpc_allowed(attr)
        ctx.counters["name_probes"] += 1
        ctx.counters["evaluations"] += 1
        if is_allowed:
            allowed += 1
            continue
        try:
            await _call_procedure(handler, RPCCall(name, (), {}))
            outcome = "executed"
        except RPCError as exc:
            text = str(exc)
            outcome = "refused" if ("not allowed" in text or "Unknown remote procedure" in text) \
                else f"RPCError: {text}"
        except BaseException as exc:  # noqa: BLE001
            outcome = f"raised {exc!r}"
        if outcome != "refused":
            ctx.vio("procedure without @allow_rpc was executed",
                    f"DirectorHandler.{name}: {outcome}", {"name": name})
        failure = await _call_and_capture_failure(handler, RPCCall(name, (1, 2), {"x": 3}))
        if getattr(failure, "qualname", None) != "RPCError":
            ctx.vio("refused procedure not reported as a generic remote-call error",
                    f"{name}: {failure!r}", {"name": name})
    ctx.sets_allowed = allowed
    ctx.nontrivial.add(f"names:{len(names)}:{allowed}")
    ctx.nontrivial.add("names:dunder")


# ---------------------------------------------------------------------------------------------


class Ctx:
    def __init__(self):
        self.counters = dict.fromkeys(["evaluations"] + REQUIRED_COUNTERS, 0)
        self.violations = []
        self.nontrivial = set()

    def vio(self, mechanism, message, witness):
        if sum(1 for v in self.violations if v["mechanism"] == mechanism) < 3:
            self.violations.append({"mechanism": mechanism, "message": message, "witness": witness})


def run_case(case):
    rng = random.Random(case["seed"])
    ctx = Ctx()

    async def main():
        if case["kind"] == "mem":
            for _ in range(case["n"]):
                await mem_scenario(ctx, rng)
        elif case["kind"] == "exhaustive":
            # Every two-way split of short streams, and EOF / reset at every byte offset.
            # The same seed rebuilds the same stream in every iteration.
            for kinds in (["echo", "fail_usage"], ["echo_gated", "sync_echo", "echo_gated"],
                          ["fail_internal", "echo_gated"], ["canary", "echo"]):
                index = 1
                while True:
                    n = await mem_scenario(ctx, random.Random(4242), forced={
                        "ncalls": len(kinds), "kinds": kinds, "fault": None, "split_index": index})
                    ctx.counters["exhaustive_splits"] += 1
                    index += 1
                    if index >= n:
                        break
                for fault in ("eof", "reset"):
                    index = 0
                    while True:
                        n = await mem_scenario(ctx, random.Random(4242), forced={
                            "ncalls": len(kinds), "kinds": kinds, "fault": fault,
                            "cut_index": index})
                        ctx.counters["exhaustive_splits"] += 1
                        index += 1
                        if index > n:
                            break
        elif case["kind"] == "sock":
            for k in range(3):
                sub = os.path.join(os.getcwd(), f"sock{k}")
                os.makedirs(sub, exist_ok=True)
                await sock_scenario(ctx, rng, sub)
        else:
            await names_scenario(ctx)

    asyncio.run(main())
    return {
        "status": "violation" if ctx.violations else "held",
        "violations": ctx.violations,
        "counters": ctx.counters,
        "nontrivial": sorted(ctx.nontrivial),
        "nontrivial_many": True,
        "sample": {"kind": case["kind"]},
    }
