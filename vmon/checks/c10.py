"""C10: dispatch is exact: nothing ineligible starts, nothing eligible is left.

The commit monitor (E4) evaluates, at every `pop_next_job` commit of every build:
  (a) the dispatched step is eligible by the definitions of DESIGN Appendix A, evaluated on the
      decision-time state;
  (b) every cached scheduling attribute of every attached step equals its definition, and no
      recompute flag is left;
and when a build phase ends while not draining:
  (c) no step is eligible by the definitions;
and across commits:
  (d) a step is never deferred beyond the configured cap; the number of dispatches per phase is
      bounded by n_steps * (defer_cap + 2).
Workload: generated projects and histories (holds, optional chains, amended inputs, resources,
targets, tiny defer caps, failing steps), under free, jitter and serial schedules.
"""

from __future__ import annotations

import copy
import json
import os
import random
import shutil

from vmon import gen, harness as H, invariants as I
from vmon.commitmon import DOUBLE_RUN_MECH
from vmon.checks import c01

PROPERTY = "C10"
LEVEL = "exploration"
RULE = (
    "distinct (recompute-flag pattern before the decision, decision) pairs observed at "
    "pop_next_job commits: which _check_* flags were set on how many rows (0, 1, many) and "
    "whether a run, a check or nothing was dispatched"
)
TIMEOUT = 600
REQUIRED_COUNTERS = ["dispatch_decisions", "dispatches", "cached_rows_compared", "phase_ends",
                     "holds", "deferred_events", "quiescent_checks"]
ASSUMPTIONS = [
    "decision-time state = committed snapshot with the dispatched step's own state put back to "
    "PENDING; the _check_safe flag of the step dispatched in that transaction is exempt",
    "simulated steps (mode A); the definitions are those of DESIGN Appendix A",
]

DISPATCH_MECHS = {
    "dispatch of a step that is not eligible by the definitions",
    "dispatch kind does not match the stored hash",
    "two steps dispatched in one decision",
    "recompute flag still set after a dispatch decision",
    "cached _implied_need/_tail_time differs from its definition",
    "cached _safe differs from its definition",
    "cached _ready differs from its definition",
    "build phase ended while an eligible step was left",
    "dispatch outside a dispatch transaction",
    "step deferred beyond the defer cap",
    "eligible step while the job loop is parked (lost wake-up)",
    I.STALE_AFTER_MECH,
    DOUBLE_RUN_MECH,
}


def scenario_deferred_subplan_moved_output():
    from vmon.checks import c01
    spec, phases = c01.scenario_deferred_subplan_moved_output()
    return spec, phases, {"njob": 4, "resources": "cpu:2,gpu:2", "thread_delay": {"p": 0.5, "max": 0.02, "seed": 1}}


def gen_cases(tier, seed):
    n = 40 if tier == "quick" else 1000
    cases = [{"id": f"c10-seed-{k}", "seed": seed, "scenario": k} for k in SCENARIOS]
    cases += [{"id": f"c10-seed-deferred_subplan_moved_output-{i}", "seed": seed * 17 + 1 + i,
               "scenario": "deferred_subplan_moved_output"} for i in range(5 if tier == "quick" else 40)]
    from vmon.checks import c09
    cases += c09.example_cases("c10", tier, seed + 1)
    cases += [{"id": f"c10-{seed}-{i}", "seed": seed * 7919 + i, "nhist": 3} for i in range(n)]
    return cases


def scenario_hold_recycled_product():
    """A plan holds while it re-declares an unchanged step whose product step must run again."""
    spec = {
        "sources": {"src/a.txt": "a\n", "src/b.txt": "b FAIL\n"},
        "env": {},
        "steps": {
            "X": {"kind": "do", "salt": "", "inp": ["src/a.txt"], "out": ["out/x.txt"], "defines": ["T"]},
            "T": {"kind": "do", "salt": "", "inp": ["src/b.txt"], "out": ["out/t.txt"],
                  "fail_if": "src/b.txt"},
            "U": {"kind": "do", "salt": "", "inp": ["src/a.txt"], "out": ["out/u.txt"]},
        },
        "plans": {".": [["static", ["src/a.txt", "src/b.txt"]], ["hold", [["step", "X"]]], ["step", "U"]]},
    }
    p2 = copy.deepcopy(spec)
    p2["sources"]["src/b.txt"] = "b fine\n"
    p2["steps"]["U"]["salt"] = "r"   # the plan changes, so it runs again and holds again
    return spec, [{"edits": [["change_source", "b"], ["redefine_step", "U"]], "spec": p2}], {"njob": 1}


def scenario_defer_forever():
    """Two steps that each amend the other's output: they defer until the cap."""
    spec = {
        "sources": {"src/a.txt": "a\ninclude out/q.txt\n", "src/b.txt": "b\ninclude out/p.txt\n"},
        "env": {},
        "steps": {
            "P": {"kind": "do", "salt": "", "inp": ["src/a.txt"], "out": ["out/p.txt"], "include": ["src/a.txt"]},
            "Q": {"kind": "do", "salt": "", "inp": ["src/b.txt"], "out": ["out/q.txt"], "include": ["src/b.txt"]},
        },
        "plans": {".": [["static", ["src/a.txt", "src/b.txt"]], ["step", "P"], ["step", "Q"]]},
    }
    return spec, [], {"njob": 2, "defer_cap": 3}


LATE_REQUEST_MECH = ("a step that dies right after sending a request which makes its own missing input "
                     "available is run again without bound: the request is applied after the step ended, "
                     "re-pends it, and the defer cap only fails it until the next late request")


def scenario_late_request_after_death():
    """A step amends a file nobody declares (deferred), sends static() for that file on a
    connection it closes at once, and dies.  The request is handled after the step ended."""
    prog = [{"a": "amend", "inp": ["src/late.txt"]},
            {"a": "drop", "name": "declare_static", "args": [[], ["src/late.txt"], []], "when": "sent", "die": True}]
    prog2 = [{"a": "raw", "name": "amend_step", "args": [["src/late.txt"], [], [], []]},
             {"a": "drop", "name": "declare_static", "args": [[], ["src/late.txt"], []], "when": "sent", "die": True}]
    del prog
    import json as _json
    spec = {"sources": {"src/a.txt": "a\n", "src/late.txt": "late\n"}, "env": {}, "steps": {},
            "plans": {".": [["static", ["src/a.txt"]],
                            ["raw", {"a": "step", "cmd": "do " + _json.dumps(prog2), "inp": ["src/a.txt"]}]]}}
    return spec, [], {"njob": 2, "defer_cap": 2, "keep_going": True, "drop_cutoff": 150}


def scenario_missing_amend():
    """A step amends an input that nothing declares: deferred, and parked until the cap."""
    spec = {
        "sources": {"src/a.txt": "a\ninclude src/ghost.txt\n"},
        "env": {},
        "steps": {"P": {"kind": "do", "salt": "", "inp": ["src/a.txt"], "out": ["out/p.txt"],
                        "include": ["src/a.txt"]}},
        "plans": {".": [["static", ["src/a.txt"]], ["step", "P"]]},
    }
    return spec, [], {"njob": 1, "defer_cap": 2}


def scenario_targets():
    spec = {
        "sources": {"src/a.txt": "a\n"},
        "env": {},
        "steps": {
            "A": {"kind": "do", "salt": "", "inp": ["src/a.txt"], "out": ["out/a.txt"]},
            "B": {"kind": "do", "salt": "", "inp": ["out/a.txt"], "out": ["out/sub/b.txt"], "need": "OPTIONAL"},
            "C": {"kind": "do", "salt": "", "inp": ["src/a.txt"], "out": ["out/c.txt"]},
        },
        "plans": {".": [["static", ["src/a.txt"]], ["step", "A"], ["step", "B"], ["step", "C"]]},
    }
    return spec, [], {"njob": 2, "targets": ["out/sub/b.txt"]}


def scenario_resources():
    """Four steps that each need two of three available units: at most one may run at a time."""
    steps = {}
    items = [["static", ["src/a.txt"]]]
    for k in range(4):
        steps[f"R{k}"] = {"kind": "do", "salt": "", "inp": ["src/a.txt"], "out": [f"out/r{k}.txt"],
                          "res": {"cpu": 2}}
        items.append(["step", f"R{k}"])
    steps["G"] = {"kind": "do", "salt": "", "inp": ["src/a.txt"], "out": ["out/g.txt"], "res": {"gpu": 1}}
    items.append(["step", "G"])
    spec = {"sources": {"src/a.txt": "a\n"}, "env": {}, "steps": steps, "plans": {".": items}}
    return spec, [], {"njob": 3, "resources": "cpu:3"}


SCENARIOS = {
    "deferred_subplan_moved_output": scenario_deferred_subplan_moved_output,
    "resources": scenario_resources,
    "hold_recycled_product": scenario_hold_recycled_product,
    "defer_forever": scenario_defer_forever,
    "missing_amend": scenario_missing_amend,
    "targets": scenario_targets,
    "late_request_after_death": scenario_late_request_after_death,
}


def hostile_cfg(rng):
    cfg = {"njob": rng.choice([1, 1, 2, 3]), "resources": rng.choice(["cpu:2,gpu:2", "cpu:1", None]),
           "defer_cap": rng.choice([100, 100, 2, 1])}
    r = rng.random()
    if r < 0.15:
        cfg["keep_going"] = True
    elif r < 0.25:
        cfg["clean"] = False
    if rng.random() < 0.3:
        cfg["db_delay"] = {"p": rng.choice([0.1, 0.4]), "max": 0.003, "seed": rng.randrange(1 << 30)}
    if rng.random() < 0.3:
        cfg["thread_delay"] = {"p": rng.choice([0.3, 1.0]), "max": 0.02, "seed": rng.randrange(1 << 30)}
    return cfg


def add_hostility(rng, spec):
    """Make a valid project hostile for the scheduler: failing steps, missing inputs, cycles of
    amended inputs, more holds."""
    steps = spec["steps"]
    order = spec.get("order", sorted(steps))
    r = rng.random()
    if r < 0.2 and order:
        sid = rng.choice(order)
        steps[sid]["fail"] = True
    elif r < 0.35 and order:
        sid = rng.choice(order)
        src = [p for p in steps[sid]["inp"] if p.startswith("src/")]
        if src:
            spec["sources"][src[0]] += "include src/ghost.txt\n"
            steps[sid].setdefault("include", [])
            if src[0] not in steps[sid]["include"]:
                steps[sid]["include"].append(src[0])
    elif r < 0.5 and len(order) >= 2:
        # an include of an output of a *later* step (may defer, may form a dynamic cycle)
        a, b = sorted(rng.sample(range(len(order)), 2))
        early, late = steps[order[a]], steps[order[b]]
        src = [p for p in early["inp"] if p.startswith("src/")]
        if src and late["out"][0] not in early["inp"]:
            spec["sources"][src[0]] += f"include {late['out'][0]}\n"
            early.setdefault("include", [])
            if src[0] not in early["include"]:
                early["include"].append(src[0])
    return spec


def run_case(case):
    if case.get("kind") == "examples":
        from vmon.checks import c09
        res = c09.run_examples(case, mechs=DISPATCH_MECHS)
        for key in ["builds", "dispatch_decisions", "dispatches", "cached_rows_compared", "phase_ends",
                    "phase_ends_draining", "holds", "deferred_events", "commits_checked", "serial_builds",
                    "quiescent_checks"]:
            res["counters"].setdefault(key, 0)
        return res
    rng = random.Random(case["seed"])
    counters = dict.fromkeys(["evaluations", "builds", "dispatch_decisions", "dispatches",
                              "cached_rows_compared", "phase_ends", "phase_ends_draining", "holds",
                              "deferred_events", "commits_checked", "serial_builds", "quiescent_checks"], 0)
    violations = []
    classes = set()

    def vio(mechanism, message, witness):
        if sum(1 for v in violations if v["mechanism"] == mechanism) < 2:
            violations.append({"mechanism": mechanism, "message": message, "witness": witness})

    witness = {"case": case["id"]}

    def collect(mon, build, what):
        counters["builds"] += 1
        counters["commits_checked"] += mon.nwrite_commits
        for key in ("dispatch_decisions", "dispatches", "cached_rows_compared", "phase_ends",
                    "phase_ends_draining", "quiescent_checks"):
            counters[key] += mon.counters.get(key, 0)
        counters["holds"] += sum(1 for e in build.events if e["type"] == "rpc" and e["name"] == "hold_dispatch")
        counters["deferred_events"] += len(build.tagged("DEFERRED"))
        classes.update(repr(c) for c in mon.decision_classes)
        for mech, msg, wit in mon.findings:
            if mech in DISPATCH_MECHS:
                vio(mech, f"{what}: {msg}", {**witness, **wit})
        # (d) bounded number of dispatches per phase
        nsteps = max(1, len({e["step"] for e in build.events if e["type"] == "cmd_start"}))
        cap = getattr(mon, "defer_cap", 100)
        if mon.counters.get("dispatches", 0) > (nsteps + 5) * (cap + 2) * 3:
            mech = "unbounded number of dispatches in one build phase"
            if any(e["type"] == "drop" for e in build.events):
                mech = LATE_REQUEST_MECH
            vio(mech, f"{what}: {mon.counters.get('dispatches')} dispatches for {nsteps} steps, cap {cap}", witness)
        if build.error is not None and build.error[0] == "watchdog":
            vio("build phase does not terminate", f"{what}: {build.error}", witness)

    ctx = {"counters": counters, "vio": vio, "collect": collect}
    nh = 1 if "scenario" in case else case.get("nhist", 3)
    for h in range(nh):
        sub = f"h{h}"
        os.makedirs(sub, exist_ok=True)
        cwd = os.getcwd()
        os.chdir(sub)
        try:
            if "scenario" in case:
                spec, phases, cfg0 = SCENARIOS[case["scenario"]]()
                cfgs = [cfg0] * (len(phases) + 1)
            else:
                spec = gen.gen_project(rng)
                if rng.random() < 0.5:
                    spec = add_hostility(rng, spec)
                phases = gen.gen_history(rng, spec, nphase=rng.randint(0, 3), breaks=0.2)
                cfgs = [hostile_cfg(rng) for _ in range(len(phases) + 1)]
                if rng.random() < 0.25:
                    outs = sorted(gen.declared_outputs(spec))
                    if outs:
                        t = rng.choice(outs)
                        cfgs[-1] = {**cfgs[-1], "targets": [t]} if rng.random() < 0.6 else \
                            {**cfgs[-1], "target_dirs": [os.path.dirname(t) + "/"]}
            witness.update({"spec": spec, "phases": [p["edits"] for p in phases], "configs": cfgs})
            files = gen.render(spec)
            dropped = set()
            specs = [spec] + [p["spec"] for p in phases]
            for k, cur in enumerate(specs):
                if k > 0:
                    files = gen.render(cur, previous=files)
                cfg = cfgs[k]
                mode = rng.choice(["free", "jitter", "serial"])
                if case.get("scenario") == "late_request_after_death":
                    mode = "free"    # the request has to be handled before the job is retired
                ctl = H.Controller(mode, rng.randrange(1 << 30))
                if mode == "serial":
                    counters["serial_builds"] += 1
                mon = I.make_monitor(defer_cap=cfg.get("defer_cap", 100), dropped=dropped)
                if mode == "serial":
                    async def lost_wakeup(mon=mon, ctl=ctl):
                        await I.check_lost_wakeup(mon, ctl.build)
                    ctl.quiescent_hooks.append(lost_wakeup)
                b = H.run_build(cfg, ctl=ctl, monitors=[mon], env=dict(cur.get("env", {})), timeout=90)
                collect(mon, b, f"{case['id']}/{sub} build {k} ({mode})")
                counters["evaluations"] += 1
                if case.get("scenario") == "late_request_after_death":
                    # The window (request handled after the step's completion was committed and
                    # before its job is retired) is narrower under the commit monitor: the same
                    # build is repeated without it and judged on the number of command starts.
                    for rep in range(6):
                        shutil.rmtree(".stepup", ignore_errors=True)
                        b2 = H.run_build(cfg, ctl=H.Controller("free", rep), env={}, timeout=90)
                        starts = sum(1 for e in b2.events if e["type"] == "cmd_start")
                        counters["late_request_runs"] = counters.get("late_request_runs", 0) + 1
                        counters["late_request_max_starts"] = max(counters.get("late_request_max_starts", 0), starts)
                        if starts > (2 + 5) * (cfg["defer_cap"] + 2) * 3:
                            vio(LATE_REQUEST_MECH, f"{case['id']} repetition {rep}: {starts} command starts for "
                                f"2 steps with defer cap {cfg['defer_cap']}", witness)
        finally:
            os.chdir(cwd)
            shutil.rmtree(sub, ignore_errors=True)
    return {
        "status": "violation" if violations else "held",
        "violations": violations,
        "counters": counters,
        "nontrivial": sorted(classes),
        "nontrivial_many": True,
        "sample": {"case": case["id"], "decision_classes": sorted(classes)[:4]},
    }
