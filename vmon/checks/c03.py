"""C03: a step only succeeds on inputs that were final while it ran.

Every simulated step logs (path, digest) of each file at the moment it reads it; the harness logs
command start/end, amend() calls and reporter events; a gremlin rewrites an input of a step that
is running (between two of its actions) in some builds.

Oracles
  start     at every command start, in the last committed tables: every initial (non-amended)
            input of the step is BUILT by a SUCCEEDED step or a CONFIRMED static file
  final     at the end of every build, for every attached SUCCEEDED step: every (path, digest) its
            last executed command read equals the digest recorded for that path in the database
            (so a step that was skipped, or not run again, still matches what it consumed)
  changed   an execution during which the gremlin changed one of the files it read or amended
            never ends in SUCCESS, and after the report of that failure no other command starts
  producer  an execution that amended a built input whose producer ended a command after this
            execution started never ends in SUCCESS (it is deferred and run again)
"""

from __future__ import annotations

import base64
import json
import os
import random
import shutil

from vmon import commitmon, gen, harness as H

PROPERTY = "C03"
LEVEL = "exploration"
RULE = ("distinct (outcome of an execution, had amended inputs, producer overlapped, gremlin hit "
        "before/after the read, policy) situations judged")
TIMEOUT = 900
REQUIRED_COUNTERS = ["executions", "starts_checked", "initial_inputs_checked", "final_reads_checked",
                     "gremlin_hits", "gremlin_hits_on_running_reader", "amended_built_inputs",
                     "deferred_executions", "producer_overlaps"]
ASSUMPTIONS = ["mode A: the simulated steps read only what they declared or amended",
               "the gremlin changes size and mtime as well as content (a same-size same-mtime "
               "rewrite is invisible to a stat-based check by design)"]

BUILT, CONFIRMED, SUCCEEDED = 16, 14, 23


def gen_cases(tier, seed):
    n = 40 if tier == "quick" else 900
    cases = [{"id": f"c03-{seed}-{i}", "seed": seed * 8191 + i} for i in range(n)]
    cases += [{"id": f"c03-directed-{k}", "seed": seed, "scenario": k} for k in SCENARIOS]
    return cases


def recorded_digest(hash_json):
    if not hash_json:
        return None
    try:
        return base64.b85decode(json.loads(hash_json)["digest"]).hex()[:16]
    except Exception:  # noqa: BLE001
        return None


class Gremlin(H.Controller):
    """Schedule controller that also rewrites an input of a running step now and then."""

    def __init__(self, policy, seed, prob, build_events=None):
        super().__init__(policy, seed)
        self.prob = prob
        self.budget = 1 if prob > 0 else 0
        self.hits = []
        self.grng = random.Random(seed ^ 0x5A5A)

    async def gate(self, info):
        await super().gate(info)
        if self.budget <= 0 or self.grng.random() >= self.prob:
            return
        b = self.build
        job = info["job"]
        reads = [e["path"] for e in b.events if e["type"] == "read" and e["job"] == job]
        nxt = info["action"]
        upcoming = [nxt["path"]] if nxt.get("a") in ("read", "include") and "path" in nxt else []
        cands = [p for p in dict.fromkeys(reads + upcoming)
                 if os.path.isfile(p) and not p.endswith("plan.py") and not p.startswith("progs/")]
        if not cands:
            return
        path = self.grng.choice(cands)
        with open(path) as fh:
            old = fh.read()
        H.write_file(path, old + f"gremlin {len(self.hits)} {self.grng.randrange(10**6)}\n")
        self.budget -= 1
        self.hits.append(path)
        b.event("gremlin", job=job, step=info["step"], path=path, before_read=path not in reads,
                digest=H.digest_of(path))


class StartMonitor(commitmon.CommitMonitor):
    """Keeps the last committed snapshot available for the command-start oracle and judges every
    dispatch (a commit in which a step becomes RUNNING or CHECKING) against the draining flag."""

    def __init__(self):
        super().__init__(checkers=[self.dispatch_checker])
        self.dispatches = 0
        self.dispatch_snap = {}

    def dispatch_checker(self, mon, prev, snap, tx):
        if prev is None or snap is None or self.build.handler is None:
            return
        started = [i for i, st in snap["step"].items() if st["state"] in (22, 25)
                   and prev["step"].get(i, {}).get("state") == 21]
        if not started:
            return
        self.dispatches += len(started)
        for i in started:
            self.dispatch_snap[i] = snap
            if snap["step"][i]["state"] != 22:
                continue   # CHECKING: only hashes are compared, no command starts yet
            for idep, (src, snk) in snap["dep"].items():
                if snk != i or snap["node"][src][0] != "file" or idep in snap["dynamic_dep"]:
                    continue
                self.count("dispatch_inputs_checked")
                state = snap["file"][src][0]
                creator = snap["node"][src][2]
                ok = (not snap["node"][src][3]) and state in (BUILT, CONFIRMED)
                if ok and state == BUILT and creator in snap["step"]:
                    ok = snap["step"][creator]["state"] == SUCCEEDED
                if not ok:
                    self.finding("step dispatched to run although a declared input was not available",
                                 f"{snap['node'][i][1][:80]!r}: input {snap['node'][src][1]} has state {state}"
                                 f"{' (detached)' if snap['node'][src][3] else ''} (transaction {tx.index})")
        if self.build.handler.scheduler.draining:
            self.finding("step dispatched while the scheduler was draining",
                         f"{snap['node'][started[0]][1][:80]!r} (transaction {tx.index}, {tx.task_name})")


def scenario_amend_running_producer():
    """The consumer amends the producer's output while the producer is still running or has just
    finished after the consumer started."""
    spec = {
        "sources": {"src/a.txt": "a\n", "src/c.txt": "c\ninclude out/p.txt\n"}, "env": {},
        "steps": {
            "P": {"kind": "do", "salt": "", "inp": ["src/a.txt"], "out": ["out/p.txt"]},
            "C": {"kind": "do", "salt": "", "inp": ["src/c.txt"], "out": ["out/c.txt"], "include": ["src/c.txt"]},
            "D": {"kind": "do", "salt": "", "inp": ["src/a.txt"], "out": ["out/d.txt"], "amend_inp": ["out/p.txt"]},
        },
        "plans": {".": [["static", ["src/a.txt", "src/c.txt"]], ["step", "C"], ["step", "D"], ["step", "P"]]},
        "order": ["C", "D", "P"],
    }
    # fillers that start and stop around the producer's end: the record of when the producer
    # stopped has to survive other steps starting and stopping before the consumer amends
    for k in range(4):
        spec["sources"][f"src/f{k}.txt"] = f"filler {k}\n"
        spec["steps"][f"F{k}"] = {"kind": "do", "salt": "", "inp": [f"src/f{k}.txt"], "out": [f"out/f{k}.txt"],
                                  "amend_inp": ["src/a.txt"] if k % 2 else []}
        spec["plans"]["."][0][1].append(f"src/f{k}.txt")
        spec["plans"]["."].append(["step", f"F{k}"])
        spec["order"].append(f"F{k}")
    phases = [{"spec": json.loads(json.dumps(spec)), "edits": ["src/a.txt changed"]}]
    phases[0]["spec"]["sources"]["src/a.txt"] = "a changed\n"
    return spec, phases, {"njob": 4}


def scenario_static_changes_while_running():
    spec = {
        "sources": {"src/a.txt": "a\n", "src/b.txt": "b\n"}, "env": {},
        "steps": {
            "A": {"kind": "do", "salt": "", "inp": ["src/a.txt", "src/b.txt"], "out": ["out/a.txt"]},
            "B": {"kind": "do", "salt": "", "inp": ["out/a.txt", "src/b.txt"], "out": ["out/b.txt"]},
            "E": {"kind": "do", "salt": "", "inp": ["src/b.txt"], "out": ["out/e.txt"]},
        },
        "plans": {".": [["static", ["src/a.txt", "src/b.txt"]], ["step", "A"], ["step", "B"], ["step", "E"]]},
        "order": ["A", "B", "E"],
    }
    return spec, [], {"njob": 2}


def scenario_forced_overlap():
    """The exact order that makes an amended input unfresh, forced with signal/await: the consumer C
    starts while the producer P runs; P stops; Y (which needs P's output) starts; X stops; only
    then C amends P's output.  C must be deferred and run again, never succeed on this attempt."""
    def step(prog, inp, out):
        return ["raw", {"a": "step", "cmd": "do " + json.dumps(prog), "inp": inp, "out": out}]
    P = [{"a": "read", "path": "src/a.txt"}, {"a": "await", "key": "c_started"}, {"a": "write", "path": "out/p.txt"}]
    C = [{"a": "read", "path": "src/c.txt"}, {"a": "signal", "key": "c_started"},
         {"a": "await", "key": "x_finishing"}, {"a": "sleep", "s": 0.15},
         {"a": "amend", "inp": ["out/p.txt"]}, {"a": "read", "path": "out/p.txt"}, {"a": "write", "path": "out/c.txt"}]
    X = [{"a": "read", "path": "src/x.txt"}, {"a": "await", "key": "y_started"}, {"a": "signal", "key": "x_finishing"},
         {"a": "write", "path": "out/x.txt"}]
    Y = [{"a": "read", "path": "out/p.txt"}, {"a": "signal", "key": "y_started"}, {"a": "sleep", "s": 0.4},
         {"a": "write", "path": "out/y.txt"}]
    spec = {"sources": {"src/a.txt": "a\n", "src/c.txt": "c\n", "src/x.txt": "x\n"}, "env": {}, "steps": {},
            "plans": {".": [["static", ["src/a.txt", "src/c.txt", "src/x.txt"]],
                            step(P, ["src/a.txt"], ["out/p.txt"]), step(C, ["src/c.txt"], ["out/c.txt"]),
                            step(X, ["src/x.txt"], ["out/x.txt"]), step(Y, ["out/p.txt"], ["out/y.txt"])]},
            "order": []}
    return spec, [], {"njob": 3}


def scenario_skip_check_while_other_fails():
    """T and X read the same static file.  X fails on a change of the file (which records the new
    hash and makes the consumers pending) while T is being hash-checked for a skip: T validated
    its inputs before the change and completes after X.  Build 1 prepares this: X fails there too,
    the file is put back, so that in build 2 T is pending with a valid hash and X has to run."""
    def make(k):
        return {
            "sources": {"src/d.txt": "d\n", "src/e.txt": "e\n"}, "env": {},
            "steps": {
                "X": {"kind": "prog", "inp": ["src/d.txt"], "out": ["out/x.txt"], "gates_before": 1 + k},
                "T": {"kind": "do", "salt": "", "inp": ["src/d.txt", "src/e.txt"], "out": ["out/t.txt"]},
                "U": {"kind": "do", "salt": "", "inp": ["out/t.txt"], "out": ["out/u.txt"]},
            },
            "plans": {".": [["static", ["src/d.txt", "src/e.txt", "progs/X.json"]], ["step", "X"], ["step", "T"], ["step", "U"]]},
            "order": ["X", "T", "U"],
        }
    return make(0), [{"spec": make(1), "edits": ["program of X edited"]},
                     {"spec": make(2), "edits": ["program of X edited again"]}], \
        {"njob": 3, "keep_going": True, "thread_delay": {"p": 1.0, "max": 0.04, "seed": 7}}


def scenario_drain_while_waiting_for_lock():
    """Many short steps that read the same static file, three at a time; one of them fails on a
    change of the file while the job loop, woken by another step that just finished, waits for the
    database lock to dispatch the next one (every transaction waits a little: db_delay)."""
    steps = {}
    items = [["static", ["src/b.txt"] + [f"src/f{k}.txt" for k in range(16)]]]
    sources = {"src/b.txt": "b\n"}
    for k in range(16):
        sources[f"src/f{k}.txt"] = f"f{k}\n"
        steps[f"S{k}"] = {"kind": "do", "salt": "", "inp": ["src/b.txt", f"src/f{k}.txt"], "out": [f"out/s{k}.txt"]}
        items.append(["step", f"S{k}"])
    spec = {"sources": sources, "env": {}, "steps": steps, "plans": {".": items}, "order": sorted(steps)}
    return spec, [], {"njob": 4}


SCENARIOS = {"forced_overlap": scenario_forced_overlap,
             "drain_while_waiting_for_lock": scenario_drain_while_waiting_for_lock,
             "skip_check_while_other_fails": scenario_skip_check_while_other_fails, "amend_running_producer": scenario_amend_running_producer,
             "static_changes_while_running": scenario_static_changes_while_running}


def run_case(case):
    rng = random.Random(case["seed"])
    counters = dict.fromkeys(["evaluations", "builds", "success_executions", "failed_executions",
                              "skips", "reads_logged", "final_steps_checked", "final_without_execution",
                              "gremlin_builds_drained", "build_errors", "read_paths_without_node",
                              "dispatches_checked", "failures_for_changed_input",
                              "withdrawn_failures", "withdrawn_failures_without_gremlin",
                              "changed_failures_without_gremlin", "final_reads_of_outdated_inputs",
                              "inputs_withdrawn_between_dispatch_and_launch", "dispatch_inputs_checked"]
                             + REQUIRED_COUNTERS, 0)
    violations = []
    classes = set()
    witness = {"case": case["id"]}

    def vio(mechanism, message):
        if sum(1 for v in violations if v["mechanism"] == mechanism) < 2:
            violations.append({"mechanism": mechanism, "message": f"{case['id']}: {message}",
                               "witness": json.loads(json.dumps(witness, default=str))})

    notes = []
    last_exec = {}      # label -> execution dict of the last SUCCESS execution, across builds

    def one_build(cfg, mode, prob, env, what):
        mon = StartMonitor()
        ctl = Gremlin(mode, rng.randrange(1 << 30), prob)
        starts = []

        # command-start oracle: the harness calls monitors' on_event if present
        def on_event(build, ev):
            if ev["type"] != "cmd_start" or mon.prev is None:
                return
            starts.append((ev, mon.prev, dict(mon.dispatch_snap)))
        mon.on_event = on_event
        b = H.run_build(cfg, ctl=ctl, monitors=[mon], env=env, timeout=60)
        counters["builds"] += 1
        counters["evaluations"] += 1
        counters["dispatch_inputs_checked"] += mon.counters.get("dispatch_inputs_checked", 0)
        if b.error is not None:
            counters["build_errors"] += 1
            for mech, msg, _w in mon.findings:
                if not mech.startswith("harness:") and not mech.startswith("statement "):
                    vio(mech, f"{what}: {msg}")
            return b
        # -- executions ---------------------------------------------------------------------------
        execs = {}
        order = []
        for ev in b.events:
            t = ev["type"]
            if t == "cmd_start":
                execs[ev["job"]] = {"job": ev["job"], "label": ev["step"], "t0": ev["t"], "t1": None,
                                    "rc": None, "reads": [], "amends": [], "outcome": None}
                order.append(ev["job"])
            elif t == "cmd_end" and ev["job"] in execs:
                execs[ev["job"]]["t1"] = ev["t"]
                execs[ev["job"]]["rc"] = ev["rc"]
            elif t == "read" and ev["job"] in execs:
                execs[ev["job"]]["reads"].append((ev["t"], ev["path"], ev["digest"]))
                counters["reads_logged"] += 1
            elif t == "amend" and ev["job"] in execs:
                execs[ev["job"]]["amends"].append((ev["t"], list(ev["inp"]), ev.get("carry_on")))
            elif t == "report" and ev["name"] == "report" and ev["args"][0] in (
                    "SUCCESS", "FAIL", "DEFERRED", "RESCHEDULE"):
                label = ev["args"][1]
                open_ = [execs[j] for j in order if execs[j]["label"] == label
                         and execs[j]["outcome"] is None and execs[j]["t1"] is not None]
                if open_:
                    open_[0]["outcome"] = ev["args"][0]
                    open_[0]["t_report"] = ev["t"]
            elif t == "report" and ev["name"] == "report" and ev["args"][0] == "SKIP":
                counters["skips"] += 1
        hits = [ev for ev in b.events if ev["type"] == "gremlin"]
        counters["gremlin_hits"] += len(hits)
        drain_t = [ev["t"] for ev in b.events if ev["type"] == "report" and ev["name"] == "report"
                   and ev["args"][0] == "ERROR" and "unexpected input changes" in str(ev["args"][1])]
        counters["dispatches_checked"] += mon.dispatches
        for mech, msg, _w in mon.findings:
            if not mech.startswith("harness:") and not mech.startswith("statement "):
                vio(mech, f"{what}: {msg}")
        changed_fail = [ev for ev in b.events if ev["type"] == "report" and ev["name"] == "report"
                        and ev["args"][0] == "FAIL" and "changed unexpectedly" in str(ev["args"][2])]
        withdrawn = [ev for ev in b.events if ev["type"] == "report" and ev["name"] == "report"
                     and ev["args"][0] == "FAIL" and "is no longer available" in str(ev["args"][2])]
        counters["withdrawn_failures"] += len(withdrawn)
        if withdrawn and not hits:
            counters["withdrawn_failures_without_gremlin"] += len(withdrawn)
            notes.append(f"{what}: {str(withdrawn[0]['args'])[:400]}")
        changed_fail = [ev for ev in changed_fail if "is no longer available" not in str(ev["args"][2])
                        or "(digest" in str(ev["args"][2])]
        if changed_fail and not hits:
            counters["changed_failures_without_gremlin"] += len(changed_fail)
            notes.append(f"{what}: {str(changed_fail[0]['args'])[:400]}")
        if drain_t:
            counters["gremlin_builds_drained"] += 1
        if changed_fail:
            counters["failures_for_changed_input"] += len(changed_fail)
            if not (b.returncode.value & 32):
                vio("build did not drain after a step failed on an input that changed",
                    f"{what}: return code {b.returncode}")
        # -- start oracle -------------------------------------------------------------------------
        for ev, snap, dsnaps in starts:
            counters["starts_checked"] += 1
            node = snap["node"]
            sid = [i for i, (kind, lab, _c, det) in node.items() if kind == "step" and lab == ev["step"] and not det]
            if len(sid) != 1:
                continue
            sid = sid[0]
            for idep, (src, snk) in snap["dep"].items():
                if snk != sid or node[src][0] != "file" or idep in snap["dynamic_dep"]:
                    continue
                counters["initial_inputs_checked"] += 1
                state = snap["file"][src][0]
                creator = node[src][2]
                ok = (not node[src][3]) and state in (BUILT, CONFIRMED)
                if ok and state == BUILT and creator in snap["step"]:
                    ok = snap["step"][creator]["state"] == SUCCEEDED
                dsnap = dsnaps.get(sid)
                if not ok and dsnap is not None and src in dsnap["file"]:
                    dstate = dsnap["file"][src][0]
                    dok = (not dsnap["node"][src][3]) and dstate in (BUILT, CONFIRMED)
                    if dok and dstate == BUILT and creator in dsnap["step"]:
                        dok = dsnap["step"][creator]["state"] == SUCCEEDED
                    if dok:
                        # available when the step was dispatched and its inputs were validated;
                        # a change was recorded in the short time before the command was launched
                        counters["inputs_withdrawn_between_dispatch_and_launch"] += 1
                        continue
                if not ok:
                    vio("command started although a declared input was not available",
                        f"{what}: {ev['step'][:80]!r} started; input {node[src][1]} has state {state}"
                        f"{' (detached)' if node[src][3] else ''}, producer state "
                        f"{snap['step'].get(creator, {}).get('state')}")
        # -- per execution oracles ----------------------------------------------------------------
        ends = sorted((e["t1"], e["label"]) for e in execs.values() if e["t1"] is not None)
        snap = mon.prev
        producers = {}
        initial_inputs = {}
        if snap is not None:
            for idep, (src, snk) in snap["dep"].items():
                if snap["node"][src][0] == "file" and snk in snap["step"] and idep not in snap["dynamic_dep"]:
                    initial_inputs.setdefault(snap["node"][snk][1], set()).add(snap["node"][src][1])
            for fi, (state, _h) in snap["file"].items():
                kind, lab, creator, det = snap["node"][fi]
                if creator in snap["step"] and state in (15, 16, 17):
                    producers[lab] = snap["node"][creator][1]
        for e in execs.values():
            counters["executions"] += 1
            amended = sorted({p for _t, paths, _c in e["amends"] for p in paths})
            touched = {p for _t, p, _d in e["reads"]} | set(amended)
            if e["outcome"] == "SUCCESS":
                counters["success_executions"] += 1
                last_exec[e["label"]] = e
            elif e["outcome"] == "DEFERRED":
                counters["deferred_executions"] += 1
            elif e["outcome"] == "FAIL":
                counters["failed_executions"] += 1
            first_touch = {}
            for t, p, _d in e["reads"]:
                first_touch.setdefault(p, t)
            for t, paths, _c in e["amends"]:
                for p in paths:
                    first_touch[p] = min(first_touch.get(p, t), t)
            # inputs declared up front are touched from the start
            for p in initial_inputs.get(e["label"], ()):
                first_touch[p] = e["t0"]
            hit = [h for h in hits if h["path"] in first_touch
                   and max(e["t0"], first_touch[h["path"]]) < h["t"] < (e["t1"] or 10 ** 9)]
            if hit:
                counters["gremlin_hits_on_running_reader"] += 1
                if e["outcome"] == "SUCCESS":
                    vio("step succeeded although an input changed while its command ran",
                        f"{what}: {e['label'][:80]!r} ran over events {e['t0']}..{e['t1']}; "
                        f"{hit[0]['path']} was rewritten at event {hit[0]['t']}")
            overlap = False
            for p in amended:
                prod = producers.get(p)
                if prod is None or prod == e["label"]:
                    continue
                counters["amended_built_inputs"] += 1
                if any(e["t0"] < t1 and lab == prod for t1, lab in ends if t1 < (e["t1"] or 10 ** 9)):
                    overlap = True
                    counters["producer_overlaps"] += 1
                    if e["outcome"] == "SUCCESS":
                        vio("step succeeded on an amended input whose producer was still running after it started",
                            f"{what}: {e['label'][:80]!r} (events {e['t0']}..{e['t1']}) amended {p}, "
                            f"produced by {prod[:60]!r}")
            classes.add(repr((e["outcome"], bool(amended), overlap,
                              ("before" if hit and hit[0].get("before_read") else "after") if hit else None, mode)))
        # -- final oracle -------------------------------------------------------------------------
        if snap is not None:
            by_label = {}
            for fi, (state, hash_json) in snap["file"].items():
                kind, lab, creator, det = snap["node"][fi]
                if not det:
                    by_label[lab] = (state, hash_json)
            for si, st in snap["step"].items():
                kind, lab, creator, det = snap["node"][si]
                if det or st["state"] != SUCCEEDED:
                    continue
                e = last_exec.get(lab)
                if e is None:
                    counters["final_without_execution"] += 1
                    continue
                counters["final_steps_checked"] += 1
                for _t, path, digest in e["reads"]:
                    if path not in by_label:
                        counters["read_paths_without_node"] += 1
                        continue
                    if by_label[path][0] not in (BUILT, CONFIRMED):
                        # not final: its producer is pending and this step is reconsidered
                        # when the file is built again
                        counters["final_reads_of_outdated_inputs"] += 1
                        continue
                    counters["final_reads_checked"] += 1
                    rec = recorded_digest(by_label[path][1])
                    if rec != digest:
                        vio("succeeded step consumed content that differs from what is recorded at the end of the build",
                            f"{what}: {lab[:80]!r} read {path} with digest {digest}, recorded {rec} "
                            f"(state {by_label[path][0]})")
        return b

    nproj = 1 if "scenario" in case else 2
    for h in range(nproj):
        sub = f"p{h}"
        os.makedirs(sub)
        cwd = os.getcwd()
        os.chdir(sub)
        last_exec.clear()
        try:
            if "scenario" in case:
                spec, phases, cfg0 = SCENARIOS[case["scenario"]]()
                reps = 3 if case["scenario"] == "forced_overlap" else 30
            else:
                spec = gen.gen_project(rng, prob={"res": 0.2})
                phases = gen.gen_history(rng, spec, nphase=rng.randint(0, 2))
                cfg0 = None
                reps = 1
            witness.update({"spec": spec, "phases": [p["edits"] for p in phases]})
            for rep in range(reps):
                if rep:
                    for p in list(os.listdir(".")):
                        shutil.rmtree(p) if os.path.isdir(p) else os.unlink(p)
                    last_exec.clear()
                files = gen.render(spec)
                for k, cur in enumerate([spec] + [p["spec"] for p in phases]):
                    if k:
                        files = gen.render(cur, previous=files)
                    cfg = cfg0 or {"njob": rng.choice([1, 2, 3, 4]), "resources": "cpu:2,gpu:2"}
                    if rng.random() < 0.3:
                        cfg = {**cfg, "keep_going": True}
                    if rng.random() < 0.3:
                        cfg = {**cfg, "thread_delay": {"p": rng.choice([0.3, 1.0]), "max": 0.02, "seed": rng.randrange(1 << 30)}}
                    if rng.random() < 0.3:
                        cfg = {**cfg, "db_delay": {"p": rng.choice([0.1, 0.4]), "max": 0.003, "seed": rng.randrange(1 << 30)}}
                    mode = rng.choice(["jitter", "serial", "serial", "free"])
                    if case.get("scenario") == "forced_overlap":
                        mode = "free"
                    prob = rng.choice([0, 0, 0.15, 0.3])
                    if case.get("scenario") == "drain_while_waiting_for_lock":
                        mode = rng.choice(["free", "jitter"])
                        prob = 0.5
                        cfg = {**cfg, "db_delay": {"p": 1.0, "max": 0.01, "seed": rng.randrange(1 << 30)}}
                    if case.get("scenario") == "skip_check_while_other_fails":
                        mode = "free"
                        prob = 1.0 if k else 0
                        cfg = {**cfg, "thread_delay": {"p": 1.0, "max": 0.04, "seed": rng.randrange(1 << 30)}}
                    one_build(cfg, mode, prob, dict(cur.get("env", {})), f"{sub} rep {rep} build {k} ({mode})")
                    # the gremlin changed a user file: the user-file map no longer describes the disk
                    files = {p: v for p, v in files.items()}
        finally:
            os.chdir(cwd)
            shutil.rmtree(sub, ignore_errors=True)
    return {"status": "violation" if violations else "held", "violations": violations,
            "counters": counters, "nontrivial": sorted(classes), "nontrivial_many": True,
            "sets": {"situations": sorted(classes), "changed_failures_without_gremlin": notes[:3]},
            "sample": {"case": case["id"], "situations": sorted(classes)[:4], "notes": notes[:2]}}
