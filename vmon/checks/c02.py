"""C02: the result of a build does not depend on scheduling.

Differential over real builds of one project in separate fresh directories:
  graph    for a project that builds, the canonical text of the whole workflow graph
           (`Workflow.format_str()` read back with the real code, blocks sorted) and every file on
           disk are identical under all schedules tried (job count, resource limits that bind or
           not, duration-based priorities, free / randomly delayed / one-at-a-time random
           completion orders), and stay identical after a resumed build with nothing changed
  class    success / failed / pending of the return code is the same under all schedules
  text     for two conflicting declarations by different steps the error text is the same
           whichever of the two arrived first (order forced by a conductor step, requesters'
           labels identical in both orders)
The evidence counts the distinct command start orders actually produced per project.
"""

from __future__ import annotations

import json
import os
import random
import shutil

from vmon import gen, harness as H
from vmon.checks import c01, c08, c10

PROPERTY = "C02"
LEVEL = "exploration"
RULE = "distinct (number of steps, job count, resources, policy, start order) schedules whose result was compared"
TIMEOUT = 900
REQUIRED_COUNTERS = ["projects", "schedules_compared", "graphs_compared", "resumed_compared",
                     "projects_with_several_start_orders", "hostile_projects", "classes_compared",
                     "conflict_texts_compared"]
ASSUMPTIONS = ["mode A; step durations are the random delays of the schedule controller",
               "keep-going and targets are configuration, not scheduling: fixed per project"]

RES_CHOICES = ["cpu:2,gpu:2", "cpu:2,gpu:2", "cpu:3,gpu:2", "cpu:9,gpu:9", "cpu:2,gpu:3"]


def gen_cases(tier, seed):
    n = 30 if tier == "quick" else 500
    cases = [{"id": f"c02-valid-{seed}-{i}", "seed": seed * 9001 + i, "kind": "valid",
              "nsched": 4 if tier == "quick" else 7} for i in range(n)]
    cases += [{"id": f"c02-hostile-{seed}-{i}", "seed": seed * 9001 + 50000 + i, "kind": "hostile",
               "nsched": 4 if tier == "quick" else 7} for i in range(n // 2)]
    cases += [{"id": f"c02-directed-{seed}-{i}", "seed": seed * 9001 + 70000 + i, "kind": "directed",
               "nsched": 8 if tier == "quick" else 12} for i in range(3 if tier == "quick" else 20)]
    cases += plan_cases(tier, seed)
    pairs = []
    claims = ["static", "out", "vol", "amend_out", "amend_vol", "tree", "glob", "inp", "amend_inp", "static_pattern"]
    for ka in claims:
        for kb in claims:
            for pa in c08.candidates(ka):
                for pb in c08.candidates(kb):
                    pairs.append((ka, pa, kb, pb))
    rng = random.Random(seed)
    rng.shuffle(pairs)
    diag = [(ka, c08.candidates(ka)[0], kb, c08.candidates(kb)[0]) for ka in claims for kb in claims]
    chosen = diag + pairs[: (100 if tier == "quick" else len(pairs))]
    chunk = 25 if tier == "quick" else 60
    for k in range(0, len(chosen), chunk):
        cases.append({"id": f"c02-text-{seed}-{k // chunk}", "seed": seed + k, "kind": "text",
                      "pairs": chosen[k:k + chunk]})
    return cases


def directed_deferred_subplan():
    """An optional producer whose consumer is defined by a sub-plan that is deferred once (it amends
    the output of a step that may not be built yet) and recycles its steps when it runs again."""
    steps = {
        "P": {"kind": "do", "salt": "", "inp": ["src/a.txt"], "out": ["out/foo.txt"], "need": "OPTIONAL"},
        "L": {"kind": "do", "salt": "", "inp": ["src/a.txt"], "out": ["out/late.txt"]},
        "X": {"kind": "do", "salt": "", "inp": ["src/a.txt"], "out": ["out/x.txt"]},
        "C": {"kind": "do", "salt": "", "inp": ["out/foo.txt"], "out": ["out/bar.txt"]},
    }
    return {"sources": {"src/a.txt": "a\n"}, "env": {}, "steps": steps, "order": ["P", "L", "X", "C"],
            "plans": {".": [["static", ["src/a.txt", "sub/plan.py"]], ["step", "P"], ["step", "L"], ["plan", "sub"]],
                      "sub": [["step", "X"], ["raw", {"a": "gate", "name": "s0"}], ["step", "C"],
                              ["raw", {"a": "gate", "name": "s1"}],
                              ["raw", {"a": "amend", "inp": ["out/late.txt"]}],
                              ["raw", {"a": "read", "path": "out/late.txt"}]]}}


CYCLIC_MECH = ("pending steps wait for each other in a cycle that passes through a definition (a step "
               "amends an input whose producer is defined by a step that waits, directly or not, for the "
               "first one): with one job slot they all stay pending, with several the build succeeds")


def waits_in_a_cycle_through_a_definition(text):
    """Classifier of the listed finding, on the graph of the outcome that ended PENDING.

    Waits-for relation among attached PENDING steps: A -> B when A has an input that is not built
    and B is its (pending) producer, or when B is the (pending) step that defined A, which keeps A
    from being dispatched.  True when there is a cycle with at least one edge of the second kind."""
    g = H.parse_graph(text)

    def state(head):
        for k, v in g[head]["props"]:
            if k == "state":
                return v.strip()
        return None

    pending = {h for h in g if h.startswith("step:") and state(h) == "PENDING"}
    edges = {h: set() for h in pending}
    for h in pending:
        for role, key, _dyn in g[h]["rels"]:
            if role == "creator" and key in pending:
                edges[h].add((key, True))
            if role == "source" and key in g and key.startswith("file:") and state(key) in ("PLANNED", "OUTDATED"):
                for r2, k2, _d in g[key]["rels"]:
                    if r2 == "creator" and k2 in pending:
                        edges[h].add((k2, False))
    # a cycle through at least one definition edge: from the target of such an edge back to its source
    for a in pending:
        for b, is_def in edges[a]:
            if not is_def:
                continue
            seen, stack = set(), [b]
            while stack:
                cur = stack.pop()
                if cur == a:
                    return True
                if cur in seen:
                    continue
                seen.add(cur)
                stack.extend(n for n, _ in edges.get(cur, ()))
    return False


def plan_cases(tier, seed):
    """Example directories of the repository whose plan.py builds standalone: built by the real CLI
    with -j1 and -j4 (real step processes), results compared."""
    repo = os.environ.get("VERIF_REPO", "/repo")
    root = os.path.join(repo, "tests", "examples")
    if not os.path.isdir(root):
        # a scratch copy of the package only (selftest/mutant.py): the plans come from /repo,
        # the code that builds them from the copy
        root = os.path.join("/repo", "tests", "examples")
    names = sorted(d for d in os.listdir(root) if os.path.isfile(os.path.join(root, d, "plan.py")))
    rng = random.Random(seed * 977 + 3)
    if tier == "quick":
        names = sorted(set(rng.sample(names, 14)) | {"cyclic_dynamic"})
        chunk = 3
    else:
        chunk = 6
    return [{"id": f"c02-plans-{k // chunk}", "seed": seed, "kind": "plans", "names": names[k:k + chunk]}
            for k in range(0, len(names), chunk)]


def run_plans(case):
    import subprocess
    repo = os.environ.get("VERIF_REPO", "/repo")
    counters = dict.fromkeys(["evaluations", "builds", "example_plans_tried", "example_plans_compared",
                              "example_plans_not_standalone"] + REQUIRED_COUNTERS, 0)
    violations = []
    classes = set()
    env = {k: v for k, v in os.environ.items() if not k.startswith("STEPUP_") and k not in ("HERE", "ROOT")}
    env.update({"PATH": "/venv/bin:" + env.get("PATH", "/usr/bin:/bin"), "COLUMNS": "80",
                "PYTHONPATH": os.pathsep.join([repo, os.path.dirname(os.path.dirname(os.path.dirname(
                    os.path.abspath(__file__))))])})
    for name in case["names"]:
        counters["example_plans_tried"] += 1
        results = {}
        for j in (1, 4):
            d = os.path.abspath(f"plan-{name}-j{j}")
            shutil.copytree(os.path.join(repo, "tests", "examples", name), d, symlinks=True)
            try:
                proc = subprocess.run(["/venv/bin/stepup", "build", "-j", str(j), "--no-progress"], cwd=d, env=env,
                                      stdin=subprocess.DEVNULL, capture_output=True, text=True, timeout=120)
                rc = proc.returncode
            except subprocess.TimeoutExpired:
                rc = "timeout"
                subprocess.run(["pkill", "-f", d], check=False)
            counters["builds"] += 1
            text = None
            if os.path.exists(os.path.join(d, ".stepup", "graph.db")) and rc != "timeout":
                cwd = os.getcwd()
                os.chdir(d)
                try:
                    text, globs = H.graph_text(attached_only=False)
                    files = c01.tree_outputs(".")
                    files = {p: v for p, v in files.items() if not p.startswith(".stepup")}
                    # the content of a volatile output is not part of the result
                    import sqlite3
                    con = sqlite3.connect("file:.stepup/graph.db?mode=ro", uri=True)
                    try:
                        for (lab,) in con.execute("SELECT node.label FROM node JOIN file ON file.node = node.i "
                                                  "WHERE file.state = 18"):
                            if lab in files:
                                files[lab] = "<volatile>"
                    finally:
                        con.close()
                except Exception as exc:  # noqa: BLE001
                    text, globs, files = None, None, {"error": repr(exc)}
                finally:
                    os.chdir(cwd)
            else:
                globs, files = None, {}
            results[j] = (rc, text, globs, files)
            shutil.rmtree(d, ignore_errors=True)
        (rc1, t1, g1, f1), (rc4, t4, g4, f4) = results[1], results[4]
        if rc1 == "timeout" or rc4 == "timeout" or t1 is None or t4 is None:
            counters["example_plans_not_standalone"] += 1
            continue
        counters["example_plans_compared"] += 1
        counters["evaluations"] += 1
        counters["schedules_compared"] += 1
        counters["classes_compared"] += 1
        classes.add(repr(("plan", name, rc1)))
        what = f"example plan {name}: stepup build -j1 (exit {rc1}) versus -j4 (exit {rc4})"
        wit = {"example": name, "case": case["id"]}
        if rc1 != rc4:
            mech = "success or failure of a build depends on the schedule"
            pend = t1 if rc1 == 16 and rc4 == 0 else (t4 if rc4 == 16 and rc1 == 0 else None)
            if pend is not None and waits_in_a_cycle_through_a_definition(pend):
                mech = CYCLIC_MECH
            violations.append({"mechanism": mech, "message": what, "witness": wit})
            continue
        if rc1 == 0:
            counters["graphs_compared"] += 1
            if t1 != t4 or g1 != g4:
                violations.append({"mechanism": "workflow graph after a successful build depends on the schedule",
                                   "message": f"{what}: {first_diff(t1, t4)[:900]}", "witness": wit})
            if f1 != f4:
                diff = sorted(p for p in set(f1) | set(f4) if f1.get(p) != f4.get(p))
                violations.append({"mechanism": "files on disk after a successful build depend on the schedule",
                                   "message": f"{what}: {diff[:5]}", "witness": wit})
    return {"status": "violation" if violations else "held", "violations": violations, "counters": counters,
            "nontrivial": sorted(classes), "nontrivial_many": True,
            "sample": {"case": case["id"], "examples": case["names"]}}


def rc_class(rc):
    if rc is None:
        return "error"
    v = rc.value
    if v & 4:
        return "failed"
    if v & 16 or v & 32:
        return "pending"
    if v & 8:
        return "warning"
    return "success"


def schedule(rng, base=False):
    if base:
        return {"njob": 1, "resources": "cpu:2,gpu:2"}, "free"
    cfg = {"njob": rng.choice([1, 2, 3, 4, 8]), "resources": rng.choice(RES_CHOICES)}
    if rng.random() < 0.3:
        cfg["use_duration"] = True
    if rng.random() < 0.3:
        # hash threads of the director that are slow to start are part of the schedule space
        cfg["thread_delay"] = {"p": rng.choice([0.3, 1.0]), "max": 0.02, "seed": rng.randrange(1 << 30)}
    if rng.random() < 0.3:
        # ... and so are tasks that have to wait for the database lock
        cfg["db_delay"] = {"p": rng.choice([0.1, 0.4]), "max": 0.003, "seed": rng.randrange(1 << 30)}
    return cfg, rng.choice(["free", "jitter", "jitter", "serial", "serial"])


def run_case(case):
    rng = random.Random(case["seed"])
    counters = dict.fromkeys(["evaluations", "builds", "distinct_start_orders", "build_errors",
                              "valid_projects_not_succeeding", "conflict_pairs_without_conflict"]
                             + REQUIRED_COUNTERS, 0)
    violations = []
    classes = set()
    witness = {"case": case["id"]}

    def vio(mechanism, message, extra=None):
        if sum(1 for v in violations if v["mechanism"] == mechanism) < 2:
            violations.append({"mechanism": mechanism, "message": f"{case['id']}: {message}",
                               "witness": json.loads(json.dumps({**witness, **(extra or {})}, default=str))})

    if case["kind"] == "plans":
        return run_plans(case)
    if case["kind"] == "text":
        os.makedirs("w")
        cwd = os.getcwd()
        os.chdir("w")
        try:
            for ka, pa, kb, pb in case["pairs"]:
                A, B = c08.decl(ka, pa, "A"), c08.decl(kb, pb, "B")
                out_ab, _m, _b = c08.run_sequence([("P", A), ("Q", B)], rng)
                out_ba, _m, _b = c08.run_sequence([("Q", B), ("P", A)], rng)
                counters["builds"] += 2
                if len(out_ab) != 2 or len(out_ba) != 2:
                    continue
                counters["evaluations"] += 1
                rejected_ab = [o for o in out_ab if not o[0]]
                rejected_ba = [o for o in out_ba if not o[0]]
                if len(rejected_ab) == 1 and len(rejected_ba) == 1 and out_ab[0][0] and out_ba[0][0]:
                    counters["conflict_texts_compared"] += 1
                    classes.add(repr(("text", ka, kb, pa == pb)))
                    if rejected_ab[0][2] != rejected_ba[0][2]:
                        vio("error text of a conflict depends on the arrival order",
                            f"A={ka} {pa}, B={kb} {pb}: A first -> {rejected_ab[0][2][-300:]!r}; "
                            f"B first -> {rejected_ba[0][2][-300:]!r}", {"A": A, "B": B})
                else:
                    counters["conflict_pairs_without_conflict"] += 1
        finally:
            os.chdir(cwd)
            shutil.rmtree("w", ignore_errors=True)
        return {"status": "violation" if violations else "held", "violations": violations,
                "counters": counters, "nontrivial": sorted(classes), "nontrivial_many": True,
                "sample": {"case": case["id"], "texts": counters["conflict_texts_compared"]}}

    hostile = case["kind"] == "hostile"
    for rep in range(2):
        if case["kind"] == "directed":
            spec = directed_deferred_subplan()
        else:
            spec = gen.gen_project(rng, prob={"res": 0.4})
        fixed = {}
        if hostile:
            spec = c10.add_hostility(rng, spec)
            if rng.random() < 0.5:
                spec = c10.add_hostility(rng, spec)
            if rng.random() < 0.5:
                fixed["keep_going"] = True
            counters["hostile_projects"] += 1
        counters["projects"] += 1
        witness.update({"spec": spec, "fixed": fixed})
        env = dict(spec.get("env", {}))
        results = []
        orders = set()
        for k in range(case["nsched"]):
            cfg, mode = schedule(rng, base=(k == 0))
            cfg = {**cfg, **fixed}
            d = f"p{rep}s{k}"
            os.makedirs(d)
            cwd = os.getcwd()
            os.chdir(d)
            try:
                gen.render(spec)
                ctl = H.Controller(mode, rng.randrange(1 << 30))
                b = H.run_build(cfg, ctl=ctl, env=env, timeout=60)
                counters["builds"] += 1
                if b.error is not None:
                    counters["build_errors"] += 1
                    results.append(None)
                    continue
                text, globs = H.graph_text(attached_only=False)
                files = c01.tree_outputs(".")
                order = tuple(e["step"] for e in b.events if e["type"] == "cmd_start")
                orders.add(order)
                res = {"cfg": cfg, "mode": mode, "rc": b.returncode, "class": rc_class(b.returncode),
                       "text": text, "globs": globs, "files": files, "dir": d, "order": order}
                results.append(res)
                # resumed with nothing changed, under another schedule
                if k == 1 and res["class"] == "success":
                    cfg2, mode2 = schedule(rng)
                    b2 = H.run_build({**cfg2, **fixed}, ctl=H.Controller(mode2, rng.randrange(1 << 30)),
                                     env=env, timeout=60)
                    counters["builds"] += 1
                    if b2.error is None:
                        text2, globs2 = H.graph_text(attached_only=False)
                        counters["resumed_compared"] += 1
                        ran = [e["step"] for e in b2.events if e["type"] == "cmd_start"]
                        if text2 != text or globs2 != globs or rc_class(b2.returncode) != "success":
                            vio("graph differs after a resumed build with nothing changed",
                                f"project {rep}: first {cfg} ({mode}), resumed {cfg2} ({mode2}), "
                                f"commands run again: {ran[:3]}; "
                                f"{first_diff(text, text2)}")
            finally:
                os.chdir(cwd)
        good = [r for r in results if r is not None]
        if len(orders) > 1:
            counters["projects_with_several_start_orders"] += 1
        counters["distinct_start_orders"] += len(orders)
        if good:
            base = good[0]
            if not hostile and base["class"] != "success":
                counters["valid_projects_not_succeeding"] += 1
            for r in good[1:]:
                counters["schedules_compared"] += 1
                counters["evaluations"] += 1
                counters["classes_compared"] += 1
                classes.add(repr((min(len(spec["steps"]), 9), r["cfg"]["njob"], r["cfg"]["resources"], r["mode"],
                                  hash(r["order"]) % 1000)))
                if r["class"] != base["class"]:
                    mech = "success or failure of a build depends on the schedule"
                    if {r["class"], base["class"]} == {"pending", "success"}:
                        pend = r if r["class"] == "pending" else base
                        if pend["rc"].value == 16 and waits_in_a_cycle_through_a_definition(pend["text"]):
                            mech = CYCLIC_MECH
                            counters["cyclic_definitions_seen"] = counters.get("cyclic_definitions_seen", 0) + 1
                    vio(mech,
                        f"project {rep}: {base['cfg']} ({base['mode']}) -> {base['rc']}, "
                        f"{r['cfg']} ({r['mode']}) -> {r['rc']}")
                    continue
                if base["class"] == "success":
                    counters["graphs_compared"] += 1
                    if r["text"] != base["text"] or r["globs"] != base["globs"]:
                        vio("workflow graph after a successful build depends on the schedule",
                            f"project {rep}: {base['cfg']} ({base['mode']}) versus {r['cfg']} ({r['mode']}): "
                            f"{first_diff(base['text'], r['text'])}")
                    if r["files"] != base["files"]:
                        diff = sorted(p for p in set(r["files"]) | set(base["files"])
                                      if r["files"].get(p) != base["files"].get(p))
                        vio("files on disk after a successful build depend on the schedule",
                            f"project {rep}: {base['cfg']} versus {r['cfg']} ({r['mode']}): {diff[:4]}")
        for r in good:
            shutil.rmtree(r["dir"], ignore_errors=True)
    for d in list(os.listdir(".")):
        if os.path.isdir(d):
            shutil.rmtree(d, ignore_errors=True)
    return {"status": "violation" if violations else "held", "violations": violations,
            "counters": counters, "nontrivial": sorted(classes), "nontrivial_many": True,
            "sample": {"case": case["id"], "start_orders": counters["distinct_start_orders"]}}


def first_diff(a, b):
    ba, bb = a.split("\n\n"), b.split("\n\n")
    only_a = [x for x in ba if x not in set(bb)]
    only_b = [x for x in bb if x not in set(ba)]
    return f"only first: {[x[:300] for x in only_a[:2]]} only second: {[x[:300] for x in only_b[:2]]}"
