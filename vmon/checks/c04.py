"""C04: rebuilding with nothing changed does nothing; edits rerun only their cone.

After a generated history that ends in a successful build:
  no-change   a rebuild after a restart executes no command ("Ran 0 job(s)", no START), leaves
              the full canonical graph unchanged, and leaves (content, mtime_ns, inode) of every
              file outside .stepup unchanged;
  cone        after editing a random subset of source files only (content changes, and added or
              deleted files that a registered glob pattern matches), every executed step consumes
              an edited file, registered a pattern that matches an edited path, consumes an output
              of another executed step, or was declared by an executed step.  Evaluated on the
              union of the dependency edges before and after the rebuild.
"""

from __future__ import annotations

import json
import os
import random
import re
import shutil
import sqlite3

from vmon import commitmon, gen, harness as H
from vmon.checks import c01

PROPERTY = "C04"
LEVEL = "exploration"
RULE = (
    "distinct (project shape, history edit kinds, edited-source subset size) cases whose history "
    "ended successfully, with at least one step executed in the cone phase or at least three "
    "steps skipped in the no-change phase"
)
TIMEOUT = 600
REQUIRED_COUNTERS = ["nochange_rebuilds", "cone_rebuilds", "cone_steps_executed", "skips_seen",
                     "files_compared"]
ASSUMPTIONS = [
    "simulated steps (mode A) with deterministic behaviour; strictly increasing mtimes",
    "hash checks (SKIP) are not commands",
]
RESOURCES = c01.RESOURCES


DYNAMIC_VALIDATION_MECH = ("consumer of the output of a step that an executed step declares is executed "
                           "again although that producer is skipped (its hash is discarded when the "
                           "producer is detached for a moment)")


def gen_cases(tier, seed):
    n = 40 if tier == "quick" else 800
    return [{"id": f"c04-{seed}-{i}", "seed": seed * 3571 + i} for i in range(n)]


def db_snapshot(path=".stepup/graph.db"):
    con = sqlite3.connect(f"file:{path}?mode=ro", uri=True)
    try:
        return commitmon.snapshot(con)
    finally:
        con.close()


def file_meta(root="."):
    meta = {}
    for dp, dns, fns in os.walk(root):
        dns[:] = [d for d in dns if d != ".stepup"]
        for f in fns:
            p = os.path.relpath(os.path.join(dp, f), root)
            st = os.stat(p)
            meta[p] = (H.digest_of(p), st.st_mtime_ns, st.st_ino)
    return meta


def edges_by_label(snap):
    """consumers: step label -> set(input file labels); producers: file label -> set(step labels);
    creators: step label -> creator step label; patterns: step label -> [regex]."""
    node = snap["node"]
    inputs, producers, creators, patterns = {}, {}, {}, {}
    for idep, (src, snk) in snap["dep"].items():
        ks, kk = node[src][0], node[snk][0]
        if ks == "file" and kk == "step":
            inputs.setdefault(node[snk][1], set()).add(node[src][1])
        elif ks == "step" and kk == "file":
            producers.setdefault(node[snk][1], set()).add(node[src][1])
    for i, (kind, label, creator, detached) in node.items():
        if kind == "step" and creator is not None and node.get(creator, ("",))[0] == "step":
            creators[label] = node[creator][1]
    for _i, (n, pattern, regex, data) in snap["nglob"].items():
        patterns.setdefault(node[n][1], []).append(regex)
    return inputs, producers, creators, patterns


def run_case(case):
    rng = random.Random(case["seed"])
    counters = dict.fromkeys(["evaluations", "histories", "unsuccessful_histories"] + REQUIRED_COUNTERS, 0)
    violations = []
    nontrivial = []

    def vio(mechanism, message, witness):
        if sum(1 for v in violations if v["mechanism"] == mechanism) < 2:
            violations.append({"mechanism": mechanism, "message": message, "witness": witness})

    ctx = {"counters": {"final_compared": 0}, "vio": lambda *a: None, "collect": lambda *a: None}
    for h in range(3):
        sub = f"h{h}"
        os.makedirs(sub)
        cwd = os.getcwd()
        os.chdir(sub)
        try:
            spec = gen.gen_project(rng)
            phases = gen.gen_history(rng, spec, nphase=rng.randint(0, 3))
            witness = {"case": case["id"], "spec": spec, "phases": [p["edits"] for p in phases]}
            final_cfg = {"njob": rng.choice([1, 2, 3]), "resources": RESOURCES}
            if phases:
                b, final_spec, env, edit_kinds, cfgs = c01.run_history(ctx, rng, spec, phases, final_cfg)
            else:
                gen.render(spec)
                env = dict(spec.get("env", {}))
                b = H.run_build(final_cfg, env=env)
                final_spec, edit_kinds = spec, []
            counters["histories"] += 1
            if b.error is not None or b.returncode is None or b.returncode.value != 0:
                counters["unsuccessful_histories"] += 1
                continue
            # ---- no-change rebuild
            text0, globs0 = H.graph_text()
            meta0 = file_meta()
            cfg = {"njob": rng.choice([1, 2, 3]), "resources": RESOURCES}
            if rng.random() < 0.3:
                cfg["db_delay"] = {"p": rng.choice([0.1, 0.4]), "max": 0.003, "seed": rng.randrange(1 << 30)}
            if rng.random() < 0.3:
                cfg["thread_delay"] = {"p": rng.choice([0.3, 1.0]), "max": 0.02, "seed": rng.randrange(1 << 30)}
            b1 = H.run_build(cfg, env=env)
            counters["nochange_rebuilds"] += 1
            counters["evaluations"] += 1
            counters["skips_seen"] += len(b1.tagged("SKIP"))
            label = f"{case['id']}/{sub}"
            started = b1.started()
            cmds = [e["step"] for e in b1.events if e["type"] == "cmd_start"]
            ran = [str(m) for m in b1.tagged("DIRECTOR") if str(m).startswith("Ran ")]
            if started or cmds or ran != ["Ran 0 job(s)."]:
                vio("command executed in a rebuild without changes",
                    f"{label}: started={[s[:80] for s in (started or cmds)]} {ran}", witness)
            if b1.returncode is None or b1.returncode.value != 0:
                vio("rebuild without changes does not succeed",
                    f"{label}: rc={b1.returncode} error={b1.error}", witness)
            text1, globs1 = H.graph_text()
            if text1 != text0 or globs1 != globs0:
                b0, b1s = set(text0.split("\n\n")), set(text1.split("\n\n"))
                vio("graph changed by a rebuild without changes",
                    f"{label}: removed:\n" + "\n\n".join(sorted(b0 - b1s))[:1200] + "\nadded:\n"
                    + "\n\n".join(sorted(b1s - b0))[:1200], witness)
            meta1 = file_meta()
            counters["files_compared"] += len(meta0)
            changed = sorted(p for p in set(meta0) | set(meta1) if meta0.get(p) != meta1.get(p))
            if changed:
                removed = [p for p in changed if p not in meta1]
                mech = "file removed by a rebuild without changes" if removed else \
                    "file rewritten by a rebuild without changes"
                vio(mech, f"{label}: {changed}", witness)
            if len(b1.tagged("SKIP")) >= 3:
                nontrivial.append(json.dumps([len(spec["steps"]), edit_kinds, "nochange"]))
            # ---- cone: edit sources only
            snap_before = db_snapshot()
            sources = sorted(p for p in final_spec["sources"] if not p.startswith("in/"))
            edited = set(rng.sample(sources, rng.randint(1, max(1, len(sources) // 2))))
            for p in edited:
                with open(p) as fh:
                    old = fh.read()
                lines = old.splitlines()
                lines[0] = lines[0] + " edited"
                H.write_file(p, "\n".join(lines) + "\n")
            glob_srcs = sorted(p for p in final_spec["sources"] if p.startswith("in/"))
            if glob_srcs and rng.random() < 0.5:
                if rng.random() < 0.5 and len(glob_srcs) > 1:
                    os.remove(glob_srcs[-1])
                    edited.add(glob_srcs[-1])
                else:
                    newp = f"in/gnew{rng.randrange(100)}.src"
                    H.write_file(newp, "new glob source\n")
                    edited.add(newp)
            cfg2 = {"njob": rng.choice([1, 2, 3]), "resources": RESOURCES}
            if rng.random() < 0.3:
                cfg2["db_delay"] = {"p": rng.choice([0.1, 0.4]), "max": 0.003, "seed": rng.randrange(1 << 30)}
            if rng.random() < 0.3:
                cfg2["thread_delay"] = {"p": rng.choice([0.3, 1.0]), "max": 0.02, "seed": rng.randrange(1 << 30)}
            b2 = H.run_build(cfg2, env=env)
            counters["cone_rebuilds"] += 1
            counters["evaluations"] += 1
            snap_after = db_snapshot()
            executed = []
            for e in b2.events:
                if e["type"] == "cmd_start" and e["step"] not in executed:
                    executed.append(e["step"])
            counters["cone_steps_executed"] += len(executed)
            ia, pa, ca, ga = edges_by_label(snap_before)
            ib, pb, cb, gb = edges_by_label(snap_after)
            execset = set(executed)
            bad = []
            for s in executed:
                inputs = ia.get(s, set()) | ib.get(s, set())
                if inputs & edited:
                    continue
                regs = ga.get(s, []) + gb.get(s, [])
                if any(re.compile(rx).fullmatch(p) for rx in regs for p in edited):
                    continue
                prods = set()
                for f in inputs:
                    prods |= pa.get(f, set()) | pb.get(f, set())
                if prods & (execset - {s}):
                    continue
                if ca.get(s) in execset or cb.get(s) in execset:
                    continue
                bad.append(s)
            # known mechanism: the step consumes the output of a step that an executed step
            # declared; that producer is detached while its declaring step runs again, the
            # consumer's dynamic inputs are validated against a digest that no longer covers the
            # same set of inputs, its hash is discarded and it is executed, although the producer
            # is then skipped and nothing the consumer reads has changed
            known_bad = []
            for s in list(bad):
                inputs = ia.get(s, set()) | ib.get(s, set())
                prods = set()
                for f in inputs:
                    prods |= pa.get(f, set()) | pb.get(f, set())
                if any((ca.get(p) in execset or cb.get(p) in execset) for p in prods):
                    bad.remove(s)
                    known_bad.append(s)
            if known_bad:
                vio(DYNAMIC_VALIDATION_MECH,
                    f"{label}: edited={sorted(edited)} executed={[s[:70] for s in executed]} "
                    f"consumers of a skipped, re-declared producer={[s[:120] for s in known_bad]}",
                    {**witness, "edited": sorted(edited)})
            if bad:
                vio("executed step outside the cone of the edited sources",
                    f"{label}: edited={sorted(edited)} executed={[s[:70] for s in executed]} "
                    f"outside cone={[s[:120] for s in bad]}", {**witness, "edited": sorted(edited)})
            if executed:
                nontrivial.append(json.dumps([len(spec["steps"]), edit_kinds, len(edited)]))
        finally:
            os.chdir(cwd)
            shutil.rmtree(sub, ignore_errors=True)
    return {
        "status": "violation" if violations else "held",
        "violations": violations,
        "counters": counters,
        "nontrivial": nontrivial,
        "nontrivial_many": True,
        "sample": {"case": case["id"]},
    }
