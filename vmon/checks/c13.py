"""C13: change detection by hashes is sound.

Executions: calls of the real `StepHash.from_inp`, `StepHash.with_out_hashes`,
`FileHash.refreshed`, `to_json`/`from_json` on generated configurations and on real files.
Oracles:
  pairs      every single-ingredient neighbour of a configuration has a different digest
  moves      moving a value between ingredient kinds (env <-> override, path <-> name, ...)
             changes the digest
  birthday   no two distinct canonical configurations of a case share a digest
  parse      the byte stream fed to SHA-256 (recorded by wrapping the hash object) is parsed
             back by an independent parser; a different parse result is re-hashed with the real
             function, and an equal digest is a collision witness
  order      the digest does not depend on the insertion order of any mapping
  files      real files manipulated on disk: changed and stat differs => reported as changed;
             unchanged (content, size, mode) => equal hash
  json       save/load round trip keeps every field
"""

from __future__ import annotations

import hashlib
import json
import os
import random
import stat

PROPERTY = "C13"
LEVEL = "exploration"
RULE = (
    "distinct canonical step configurations whose digest was compared with all its "
    "single-ingredient neighbours, plus distinct (file manipulation, stat-differs, "
    "content-changed) classes executed on real files"
)
TIMEOUT = 600
REQUIRED_COUNTERS = ["pairs_inp", "pairs_out", "file_checks", "json_roundtrips",
                     "file_changed_detectable", "file_unchanged"]
ASSUMPTIONS = [
    "variable-length ingredients are NUL-free strings, as the HashWords docstring requires",
    "file digests are 32 bytes or the 1-byte placeholder of an unknown file",
    "timestamps written by the harness differ in st_mtime whenever the check relies on a "
    "differing mtime (explicit utime with distinct ns values)",
]

KEYWORDS = ["__shell__", "__inp_paths__", "__env_vars__", "__env_overrides__"]
ATOMS = ["a", "b", "ab", "A", "_", " ", "#", "=", "/", ".", "0", "é", "\x01", "\x02", "u", "wd",
         # canonically or compatibly equivalent, yet different strings (different bytes, different
         # files on Linux): decomposed e-acute, a bare combining accent, the angstrom sign and the
         # letter it normalises to, a ligature, a full-width letter
         "e\u0301", "\u0301", "\u212b", "\u00c5", "\ufb01", "\uff41"]


def gen_cases(tier, seed):
    ncase, nconf, nfile = (32, 250, 60) if tier == "quick" else (256, 2500, 400)
    cases = []
    for i in range(ncase):
        cases.append({"id": f"c13-{seed}-{i}", "seed": seed * 100003 + i, "nconf": nconf,
                      "nfile": nfile})
    return cases


# ---------------------------------------------------------------------------------------------
# Generation of configurations
# ---------------------------------------------------------------------------------------------


def rand_str(rng, allow_empty=True, keywords=True):
    if keywords and rng.random() < 0.12:
        word = rng.choice(KEYWORDS)
        if rng.random() < 0.3:
            word += rng.choice(ATOMS)
        return word
    n = rng.choice([0, 1, 1, 2, 2, 3, 5]) if allow_empty else rng.choice([1, 1, 2, 2, 3, 5])
    return "".join(rng.choice(ATOMS) for _ in range(n))


def rand_path(rng):
    parts = [rand_str(rng, allow_empty=False).replace("/", "s") for _ in range(rng.choice([1, 1, 2, 3]))]
    return "/".join(parts)


def rand_fh(rng):
    if rng.random() < 0.1:
        return ["75", 0, 0]  # unknown: digest b"u"
    digest = bytes(rng.randrange(256) for _ in range(32))
    if rng.random() < 0.2:
        # Digests that imitate word boundaries.
        digest = (rng.choice([b"u\0\1", b"\0\1", b"\0\0", b"\0\2"]) + digest)[:32]
    mode = rng.choice([0o100644, 0o100755, 0o100600, 0o100000, 0o40755, 0])
    size = rng.choice([0, 1, 2, 255, 256, 65535, 1 << 32, rng.randrange(1 << 40)])
    return [digest.hex(), mode, size]


def rand_conf(rng):
    conf = {
        "cmd": rand_str(rng, allow_empty=False),
        "wd": rng.choice([".", ".", "sub", "a/b", rand_path(rng)]),
        "shell": rng.random() < 0.5,
        "inp": {rand_path(rng): rand_fh(rng) for _ in range(rng.choice([0, 1, 2, 3, 5]))},
        "env": {
            rand_str(rng, allow_empty=False): rng.choice([None, "", rand_str(rng), rand_str(rng)])
            for _ in range(rng.choice([0, 0, 1, 2, 3]))
        },
        "ovr": {
            rand_str(rng, allow_empty=False): rand_str(rng)
            for _ in range(rng.choice([0, 0, 1, 2]))
        },
        "out": {rand_path(rng): rand_fh(rng) for _ in range(rng.choice([0, 1, 2, 3]))},
    }
    return conf


def mutate_str(rng, s):
    """All kinds of one-character edits of a string (a random one of each kind)."""
    res = []
    atom = rng.choice(ATOMS)
    res.append(s + atom)
    res.append(atom + s)
    if len(s) > 0:
        i = rng.randrange(len(s))
        res.append(s[:i] + s[i + 1:])
        res.append(s[:i] + ("b" if s[i] != "b" else "a") + s[i + 1:])
        res.append(s[:i] + s[i].swapcase() + s[i + 1:])
    # the same text in another Unicode normal form is a different string
    import unicodedata
    for form in ("NFC", "NFD", "NFKC", "NFKD"):
        res.append(unicodedata.normalize(form, s))
    res.append(s.casefold())
    return [r for r in dict.fromkeys(res) if r != s and "\0" not in r]


def mutate_fh(rng, fh):
    digest, mode, size = fh
    res = []
    raw = bytearray(bytes.fromhex(digest))
    i = rng.randrange(len(raw))
    raw2 = bytearray(raw)
    raw2[i] ^= 1 << rng.randrange(8)
    res.append(("digest", [bytes(raw2).hex(), mode, size]))
    res.append(("mode", [digest, mode ^ (1 << rng.randrange(12)), size]))
    res.append(("size", [digest, mode, size + 1]))
    res.append(("size", [digest, mode, size ^ (1 << rng.choice([0, 8, 16, 24, 32, 40, 48, 56]))]))
    if len(raw) == 32:
        res.append(("unknown", ["75", 0, 0]))
        # swap the mode and size words
        if mode != size:
            res.append(("swap_mode_size", [digest, size, mode]))
    else:
        res.append(("known", [hashlib.sha256(b"x").hexdigest(), mode, size]))
    return res


def neighbours(rng, conf):
    """Yield (kind, digest_part, neighbour) where digest_part is "inp" or "out"."""
    def clone(**kw):
        new = {k: (dict(v) if isinstance(v, dict) else v) for k, v in conf.items()}
        new.update(kw)
        return new

    for s in mutate_str(rng, conf["cmd"]):
        yield "cmd", "inp", clone(cmd=s)
    for s in mutate_str(rng, conf["wd"]) + ([".", "x"]):
        if s != conf["wd"] and s != "":
            yield "wd", "inp", clone(wd=s)
    # Move a character across the command / working directory boundary.
    if conf["wd"] != "." and len(conf["wd"]) > 1:
        yield "cmd|wd", "inp", clone(cmd=conf["cmd"] + conf["wd"][0], wd=conf["wd"][1:])
    yield "shell", "inp", clone(shell=not conf["shell"])
    for part, key in (("inp", "inp"), ("out", "out")):
        files = conf[key]
        new_path = rand_path(rng)
        if new_path not in files:
            d = dict(files)
            d[new_path] = rand_fh(rng)
            yield f"{key}:add", part, clone(**{key: d})
        for path in list(files)[:3]:
            d = dict(files)
            del d[path]
            yield f"{key}:remove", part, clone(**{key: d})
            for s in mutate_str(rng, path):
                if s not in files and s != "":
                    d = dict(files)
                    d[s] = d.pop(path)
                    yield f"{key}:rename", part, clone(**{key: d})
            for kind, fh in mutate_fh(rng, files[path]):
                if fh != files[path]:
                    d = dict(files)
                    d[path] = fh
                    yield f"{key}:{kind}", part, clone(**{key: d})
        # Move a character between two paths (word boundary shift inside the section).
        paths = sorted(files)
        if len(paths) >= 2 and len(paths[0]) > 1:
            p0, p1 = paths[0], paths[1]
            q0, q1 = p0[:-1], p0[-1] + p1
            if q0 and q0 not in files and q1 not in files and q0 != q1 and not q0.endswith("/"):
                d = dict(files)
                d[q0] = d.pop(p0)
                d[q1] = d.pop(p1)
                yield f"{key}:shift", part, clone(**{key: d})
    env = conf["env"]
    name = rand_str(rng, allow_empty=False)
    if name not in env:
        for val in (None, "", "x"):
            d = dict(env)
            d[name] = val
            yield "env:add", "inp", clone(env=d)
    for name in list(env)[:3]:
        d = dict(env)
        del d[name]
        yield "env:remove", "inp", clone(env=d)
        for val in (None, "", "x", (env[name] or "") + "y"):
            if val != env[name]:
                d = dict(env)
                d[name] = val
                yield "env:value", "inp", clone(env=d)
        for s in mutate_str(rng, name):
            if s not in env and s != "":
                d = dict(env)
                d[s] = d.pop(name)
                yield "env:rename", "inp", clone(env=d)
        # name/value boundary shift
        if env[name]:
            s, v = name + env[name][0], env[name][1:]
            if s not in env:
                d = dict(env)
                del d[name]
                d[s] = v
                yield "env:shift", "inp", clone(env=d)
        # move to overrides
        if env[name] is not None and name not in conf["ovr"]:
            d = dict(env)
            val = d.pop(name)
            o = dict(conf["ovr"])
            o[name] = val
            yield "env->ovr", "inp", clone(env=d, ovr=o)
        # swap name and value
        if env[name] and env[name] not in env:
            d = dict(env)
            val = d.pop(name)
            d[val] = name
            yield "env:swap", "inp", clone(env=d)
    ovr = conf["ovr"]
    name = rand_str(rng, allow_empty=False)
    if name not in ovr:
        d = dict(ovr)
        d[name] = rand_str(rng)
        yield "ovr:add", "inp", clone(ovr=d)
    for name in list(ovr)[:3]:
        d = dict(ovr)
        del d[name]
        yield "ovr:remove", "inp", clone(ovr=d)
        for val in ("", "x", ovr[name] + "y"):
            if val != ovr[name]:
                d = dict(ovr)
                d[name] = val
                yield "ovr:value", "inp", clone(ovr=d)
        for s in mutate_str(rng, name):
            if s not in ovr and s != "":
                d = dict(ovr)
                d[s] = d.pop(name)
                yield "ovr:rename", "inp", clone(ovr=d)
        if name not in env:
            d = dict(ovr)
            val = d.pop(name)
            e = dict(env)
            e[name] = val
            yield "ovr->env", "inp", clone(env=e, ovr=d)
    # Structured imitations of section keywords: the same words in another role.
    yield "kw:env-name", "inp", clone(env={**env, "__env_overrides__": "x"})
    yield "kw:ovr-value", "inp", clone(ovr={**ovr, "x": "__env_overrides__"})
    yield "kw:path", "inp", clone(inp={**conf["inp"], "__env_vars__": rand_fh(rng)})
    # An input path that becomes an environment name and the reverse.
    for path in list(conf["inp"])[:1]:
        if path not in env:
            d = dict(conf["inp"])
            del d[path]
            yield "inp->env", "inp", clone(inp=d, env={**env, path: None})


# ---------------------------------------------------------------------------------------------
# Calling the real code, with the byte stream recorded
# ---------------------------------------------------------------------------------------------


class RecSha:
    """A SHA-256 object that also keeps the bytes it was given."""

    def __init__(self, sink):
        self._h = hashlib.sha256()
        self._sink = sink
        sink.append(bytearray())

    def update(self, data):
        self._sink[-1] += bytes(data)
        self._h.update(data)

    def digest(self):
        return self._h.digest()


class Real:
    def __init__(self):
        import stepup.core.hash as H
        from stepup.core.step import Step

        self.H = H
        self.Step = Step
        self.streams = []
        orig = H.HashWords
        streams = self.streams

        def make():
            hw = orig()
            hw._hash = RecSha(streams)
            return hw

        H.HashWords = make

    def fh(self, rec):
        digest, mode, size = rec
        return self.H.FileHash(bytes.fromhex(digest), mode, 12345.5, size, 77)

    def label(self, conf):
        try:
            return self.Step.adjust_label(conf["cmd"], conf["wd"])
        except ValueError:
            return None

    def digests(self, conf, order_rng=None, explained=False):
        """Return (inp_digest, out_digest, inp_stream, out_stream, step_hash)."""
        label = self.label(conf)
        if label is None:
            return None

        def mapping(d, conv=lambda v: v):
            items = list(d.items())
            if order_rng is not None:
                order_rng.shuffle(items)
            return {k: conv(v) for k, v in items}

        del self.streams[:]
        sh = self.H.StepHash.from_inp(
            label,
            mapping(conf["inp"], self.fh),
            mapping(conf["env"]),
            explained=explained,
            shell=conf["shell"],
            env_overrides=mapping(conf["ovr"]),
        )
        sh2 = sh.with_out_hashes(mapping(conf["out"], self.fh))
        assert len(self.streams) == 2
        return sh2.inp_digest, sh2.out_digest, bytes(self.streams[0]), bytes(self.streams[1]), sh2


def canon_inp(real, conf):
    return json.dumps(
        [real.label(conf), bool(conf["shell"]), sorted(conf["inp"].items()),
         sorted(conf["env"].items(), key=lambda kv: kv[0]), sorted(conf["ovr"].items())],
        sort_keys=True,
    )


def canon_out(conf):
    return json.dumps(sorted(conf["out"].items()))


# ---------------------------------------------------------------------------------------------
# Independent parser of the recorded byte stream
# ---------------------------------------------------------------------------------------------


class ParseError(Exception):
    pass


# The parser enumerates *every* way in which a byte stream can be read as the documented
# structure (backtracking over the two places where the structure itself does not fix the
# reading: the width of a digest word, 32 bytes or the 1-byte placeholder, and whether a
# section keyword in name position ends the section).
# Words start with a two-byte marker 00 00 (bytes), 00 01 (str), 00 02 (missing).
# A str word is NUL-free, so it ends at the next NUL byte or at the end of the stream.


def _str_at(stream, pos):
    if stream[pos:pos + 2] != b"\0\1":
        return None
    end = stream.find(b"\0", pos + 2)
    if end < 0:
        end = len(stream)
    try:
        return stream[pos + 2:end].decode("utf-8"), end
    except UnicodeDecodeError:
        return None


def _bytes_at(stream, pos, width):
    if stream[pos:pos + 2] != b"\0\0" or pos + 2 + width > len(stream):
        return None
    return stream[pos + 2:pos + 2 + width], pos + 2 + width


def _files_from(stream, pos, files):
    """Yield (files, pos) for every reading of zero or more file records starting at pos."""
    yield dict(files), pos
    got = _str_at(stream, pos)
    if got is None:
        return
    path, p = got
    mode = _bytes_at(stream, p, 8)
    if mode is None:
        return
    size = _bytes_at(stream, mode[1], 8)
    if size is None:
        return
    for width in (32, 1):
        digest = _bytes_at(stream, size[1], width)
        if digest is None or (width == 1 and digest[0] != b"u") or path in files:
            continue
        rec = [digest[0].hex(), int.from_bytes(mode[0], "big"), int.from_bytes(size[0], "big")]
        yield from _files_from(stream, digest[1], {**files, path: rec})


def _pairs_from(stream, pos, pairs, allow_none):
    yield dict(pairs), pos
    got = _str_at(stream, pos)
    if got is None:
        return
    name, p = got
    if stream[p:p + 2] == b"\0\2" and allow_none:
        value, p2 = None, p + 2
    else:
        got = _str_at(stream, p)
        if got is None:
            return
        value, p2 = got
    if name in pairs:
        return
    yield from _pairs_from(stream, p2, {**pairs, name: value}, allow_none)


def _expect_str(stream, pos, word):
    got = _str_at(stream, pos)
    if got is None or got[0] != word:
        return None
    return got[1]


def parse_inp_stream_all(stream, limit=4):
    """Return every complete reading of an input stream (at most `limit`)."""
    out = []
    got = _str_at(stream, 0)
    if got is None:
        raise ParseError("no label")
    label, pos = got
    pos = _expect_str(stream, pos, "__shell__")
    if pos is None:
        raise ParseError("no shell keyword")
    flag = _bytes_at(stream, pos, 1)
    if flag is None or flag[0] not in (b"\0", b"\1"):
        raise ParseError("no shell flag")
    pos = _expect_str(stream, flag[1], "__inp_paths__")
    if pos is None:
        raise ParseError("no inp keyword")
    for files, p1 in _files_from(stream, pos, {}):
        p1 = _expect_str(stream, p1, "__env_vars__")
        if p1 is None:
            continue
        for env, p2 in _pairs_from(stream, p1, {}, True):
            p2 = _expect_str(stream, p2, "__env_overrides__")
            if p2 is None:
                continue
            for ovr, p3 in _pairs_from(stream, p2, {}, False):
                if p3 == len(stream):
                    out.append({"label": label, "shell": flag[0] == b"\1", "inp": files,
                                "env": env, "ovr": ovr})
                    if len(out) >= limit:
                        return out
    if not out:
        raise ParseError("no complete reading")
    return out


def parse_out_stream_all(stream, limit=4):
    out = []
    for files, pos in _files_from(stream, 0, {}):
        if pos == len(stream):
            out.append(files)
            if len(out) >= limit:
                break
    if not out:
        raise ParseError("no complete reading")
    return out


# ---------------------------------------------------------------------------------------------
# The case
# ---------------------------------------------------------------------------------------------


KW_MECH = "section keyword __env_overrides__ used as an environment variable name or override value"


def classify_inp(a, b):
    """Name the mechanism of an input-digest collision between two configurations.

    The listed finding is exactly this: the two configurations feed the *same sequence of
    words* after the input files (environment pairs, the keyword `__env_overrides__`, override
    pairs), and differ only in which occurrence of the keyword is read as the section boundary.
    """
    def words(c):
        seq = []
        for name, value in sorted(c["env"].items(), key=lambda kv: kv[0]):
            seq += [name, value]
        seq.append("__env_overrides__")
        for name, value in sorted(c["ovr"].items()):
            seq += [name, value]
        return seq

    def rest(c):
        label = c.get("label")
        if label is None:
            label = c["cmd"] if c["wd"] == "." else c["cmd"] + "  # wd=" + c["wd"]
        return (label, bool(c["shell"]), sorted(c["inp"].items()))

    if rest(a) == rest(b) and words(a) == words(b):
        return KW_MECH
    if crafted_digest(a.get("inp", {})) or crafted_digest(b.get("inp", {})):
        return PLACEHOLDER_MECH
    return "two input configurations with one byte stream"


PLACEHOLDER_MECH = ("a 32-byte digest that starts with the 1-byte placeholder of an unknown file "
                    "followed by a word marker reads as the placeholder plus further words")


def crafted_digest(files):
    """A digest of 32 bytes that begins with b"u" and a word marker (00 00 / 00 01 / 00 02)."""
    for rec in files.values():
        hexd = rec[0]
        if len(hexd) == 64 and hexd.startswith("7500") and hexd[4:6] in ("00", "01", "02"):
            return True
    return False


def run_case(case):
    rng = random.Random(case["seed"])
    real = Real()
    counters = dict.fromkeys(
        ["evaluations", "configs", "pairs_inp", "pairs_out", "order_checks", "parsed_ok",
         "parse_mismatch_rehashed", "parse_errors", "birthday_entries", "file_checks",
         "file_changed_detectable", "file_changed_undetectable", "file_unchanged",
         "json_roundtrips", "label_rejected"], 0)
    kinds = set()
    nontrivial = []
    violations = []
    seen_inp = {}
    seen_out = {}

    def vio(mechanism, message, witness):
        # Capped per mechanism, so that hits of a listed finding never crowd out a new one.
        if sum(1 for v in violations if v["mechanism"] == mechanism) < 3:
            violations.append({"mechanism": mechanism, "message": message, "witness": witness})

    def birthday(table, canon, digest, what, conf):
        counters["birthday_entries"] += 1
        other = table.get(digest)
        if other is not None and other[0] != canon:
            mech = classify_inp(other[1], conf) if what == "input" else (
                PLACEHOLDER_MECH if crafted_digest(other[1]["out"]) or crafted_digest(conf["out"])
                else "two output configurations with one digest")
            vio(mech,
                f"{what} digest {digest.hex()[:16]} shared by {other[0][:300]} and {canon[:300]}",
                {"a": other[1], "b": conf})
        table[digest] = (canon, conf)

    for _ in range(case["nconf"]):
        conf = rand_conf(rng)
        res = real.digests(conf)
        if res is None:
            counters["label_rejected"] += 1
            continue
        inp_d, out_d, inp_stream, out_stream, _sh = res
        counters["configs"] += 1
        c_inp, c_out = canon_inp(real, conf), canon_out(conf)
        birthday(seen_inp, c_inp, inp_d, "input", conf)
        birthday(seen_out, c_out, out_d, "output", conf)
        # The SHA-256 of the recorded stream is the digest (the recorder saw everything).
        assert hashlib.sha256(inp_stream).digest() == inp_d
        assert hashlib.sha256(out_stream).digest() == out_d

        # order independence
        for _k in range(2):
            res2 = real.digests(conf, order_rng=rng)
            counters["order_checks"] += 1
            counters["evaluations"] += 1
            if res2[0] != inp_d or res2[1] != out_d:
                vio("digest depends on supply order", f"permuted mappings of {conf}", {"conf": conf})

        # independent parse of the stream: every reading must be the configuration itself
        try:
            readings = parse_inp_stream_all(inp_stream)
            out_readings = parse_out_stream_all(out_stream)
            counters["evaluations"] += 1
            me = {"label": real.label(conf), "shell": conf["shell"], "inp": conf["inp"],
                  "env": conf["env"], "ovr": conf["ovr"]}
            if me in readings and conf["out"] in out_readings:
                counters["parsed_ok"] += 1
            else:
                counters["parse_errors"] += 1
            for parsed in readings:
                if parsed == me:
                    continue
                # A second reading: confirm with the real function.
                counters["parse_mismatch_rehashed"] += 1
                sh = real.H.StepHash.from_inp(
                    parsed["label"], {k: real.fh(v) for k, v in parsed["inp"].items()},
                    parsed["env"], explained=False, shell=parsed["shell"],
                    env_overrides=parsed["ovr"])
                if sh.inp_digest == inp_d:
                    vio(classify_inp(me, parsed),
                        f"input digest {inp_d.hex()[:16]} shared by {me} and {parsed}",
                        {"a": me, "b": parsed})
            for parsed_out in out_readings:
                if parsed_out == conf["out"]:
                    continue
                counters["parse_mismatch_rehashed"] += 1
                sh = _sh.with_out_hashes({k: real.fh(v) for k, v in parsed_out.items()})
                if sh.out_digest == out_d:
                    vio(PLACEHOLDER_MECH if crafted_digest(conf["out"]) or crafted_digest(parsed_out)
                        else "two output configurations with one byte stream",
                        f"output digest shared by {conf['out']} and {parsed_out}",
                        {"a": conf["out"], "b": parsed_out})
        except ParseError:
            counters["parse_errors"] += 1

        # neighbours
        nneigh = 0
        for kind, part, other in neighbours(rng, conf):
            res2 = real.digests(other)
            if res2 is None:
                counters["label_rejected"] += 1
                continue
            counters["evaluations"] += 1
            if part == "inp":
                c2 = canon_inp(real, other)
                if c2 == c_inp:
                    continue
                counters["pairs_inp"] += 1
                kinds.add(kind)
                nneigh += 1
                birthday(seen_inp, c2, res2[0], "input", other)
                if res2[0] == inp_d:
                    mech = classify_inp(conf, other)
                    if mech != KW_MECH:
                        mech = f"input digest unchanged by a difference in {kind.split(':')[0]}"
                    vio(mech, f"[{kind}] same input digest for {conf} and {other}",
                        {"a": conf, "b": other, "kind": kind})
            else:
                c2 = canon_out(other)
                if c2 == c_out:
                    continue
                counters["pairs_out"] += 1
                kinds.add(kind)
                nneigh += 1
                birthday(seen_out, c2, res2[1], "output", other)
                if res2[1] == out_d:
                    vio(f"output digest unchanged by a difference in {kind}",
                        f"[{kind}] same output digest for {conf['out']} and {other['out']}",
                        {"a": conf, "b": other, "kind": kind})
                if res2[0] != inp_d:
                    vio("input digest depends on outputs", f"{conf} vs {other}", {"a": conf, "b": other})
        if nneigh and len(nontrivial) < 1500:
            nontrivial.append(hashlib.sha1((c_inp + c_out).encode()).hexdigest()[:10])

        # json round trip of the step hash (explained and compact)
        for explained in (False, True):
            sh = real.digests(conf, explained=explained)[4]
            back = real.H.StepHash.from_json(sh.to_json())
            counters["json_roundtrips"] += 1
            counters["evaluations"] += 1
            ok = back == sh and back.inp_digest == sh.inp_digest and back.out_digest == sh.out_digest
            if ok and explained:
                for path, fh in sh.inp_info.inp_hashes.items():
                    fb = back.inp_info.inp_hashes[path]
                    ok = ok and (fb.mtime, fb.inode) == (fh.mtime, fh.inode)
                ok = ok and back.inp_info.env_values == sh.inp_info.env_values
            if not ok:
                vio("step hash changed by a save and load round trip", f"{sh} -> {back}", {"conf": conf})

    file_classes = run_files(case, rng, real, counters, vio)
    nontrivial.extend(sorted(file_classes))
    status = "violation" if violations else "held"
    return {
        "status": status,
        "violations": violations,
        "counters": counters,
        "sets": {"neighbour_kinds": sorted(kinds), "file_classes": sorted(file_classes)},
        "nontrivial": nontrivial,
        "nontrivial_many": True,
        "sample": {"neighbour_kinds": sorted(kinds)[:6], "configs": counters["configs"]},
    }


# ---------------------------------------------------------------------------------------------
# Real files
# ---------------------------------------------------------------------------------------------

MANIPS = ["append", "truncate", "same_size_bump", "same_size_restore", "same_size_older", "chmod", "rename_replace",
          "rename_replace_restore", "touch", "rewrite_same", "delete", "recreate", "shrink_grow",
          "mode_only_restore", "noop"]


def run_files(case, rng, real, counters, vio):
    H = real.H
    classes = set()
    base_ns = 1_700_000_000_000_000_000
    tick = [0]

    def next_ns():
        tick[0] += rng.choice([1, 1000, 1_000_000, 1_000_000_000, 3_000_000_007])
        return base_ns + tick[0]

    for i in range(case["nfile"]):
        path = f"f{i}.dat"
        content = bytes(rng.randrange(256) for _ in range(rng.choice([0, 1, 5, 100, 5000])))
        with open(path, "wb") as fh:
            fh.write(content)
        os.chmod(path, rng.choice([0o644, 0o600, 0o755]))
        ns = next_ns()
        os.utime(path, ns=(ns, ns))
        recorded = H.FileHash.unknown().refreshed(path)
        st = os.stat(path)
        if recorded.digest != hashlib.sha256(content).digest() or recorded.size != len(content) \
                or recorded.mode != st.st_mode:
            vio("first hash of a file is wrong", f"{recorded} for {len(content)} bytes", {})
        # JSON round trip of a real file hash, every field.
        back = H.FileHash.from_json(recorded.to_json()) if not recorded.is_unknown else recorded
        counters["json_roundtrips"] += 1
        if (back.digest, back.mode, back.mtime, back.size, back.inode) != (
                recorded.digest, recorded.mode, recorded.mtime, recorded.size, recorded.inode):
            vio("file hash changed by a save and load round trip", f"{recorded!r} -> {back!r}",
                {"json": recorded.to_json()})
        rec_content = content
        seq = []
        for _step in range(rng.choice([1, 1, 2, 3])):
            manip = rng.choice(MANIPS)
            seq.append(manip)
            exists = os.path.exists(path)
            if not exists and manip not in ("recreate",):
                manip = "recreate"
                seq[-1] = manip
            new_content = rec_content if exists else b""
            if exists:
                with open(path, "rb") as fh:
                    new_content = fh.read()
            if manip == "append":
                extra = b"x" * rng.choice([1, 7])
                with open(path, "ab") as fh:
                    fh.write(extra)
                new_content = new_content + extra
                ns = next_ns(); os.utime(path, ns=(ns, ns))
            elif manip == "truncate":
                new_content = new_content[: len(new_content) // 2]
                with open(path, "r+b") as fh:
                    fh.truncate(len(new_content))
                ns = next_ns(); os.utime(path, ns=(ns, ns))
            elif manip in ("same_size_bump", "same_size_restore", "same_size_older"):
                old = os.stat(path)
                flipped = bytes((b ^ 0x55) for b in new_content)
                with open(path, "r+b") as fh:
                    fh.write(flipped)
                new_content = flipped
                if manip == "same_size_bump":
                    ns = next_ns(); os.utime(path, ns=(ns, ns))
                elif manip == "same_size_older":
                    # e.g. restored from a backup or an archive: the time stamp goes back
                    ns = old.st_mtime_ns - rng.choice([1_000, 1_000_000_000, 86_400_000_000_000])
                    os.utime(path, ns=(ns, ns))
                else:
                    os.utime(path, ns=(old.st_atime_ns, old.st_mtime_ns))
            elif manip == "chmod":
                mode = stat.S_IMODE(os.stat(path).st_mode)
                os.chmod(path, mode ^ rng.choice([0o100, 0o040, 0o004, 0o200 if mode & 0o400 else 0o100]))
                if not os.access(path, os.R_OK):
                    os.chmod(path, 0o644)
            elif manip in ("rename_replace", "rename_replace_restore"):
                old = os.stat(path)
                repl = bytes((b ^ 0x0F) for b in new_content) if rng.random() < 0.7 else new_content + b"!"
                with open(path + ".new", "wb") as fh:
                    fh.write(repl)
                os.chmod(path + ".new", stat.S_IMODE(old.st_mode))
                if manip == "rename_replace_restore":
                    os.utime(path + ".new", ns=(old.st_atime_ns, old.st_mtime_ns))
                else:
                    ns = next_ns(); os.utime(path + ".new", ns=(ns, ns))
                os.replace(path + ".new", path)
                new_content = repl
            elif manip == "touch":
                ns = next_ns(); os.utime(path, ns=(ns, ns))
            elif manip == "rewrite_same":
                old = os.stat(path)
                with open(path + ".new", "wb") as fh:
                    fh.write(new_content)
                os.chmod(path + ".new", stat.S_IMODE(old.st_mode))
                os.replace(path + ".new", path)
                ns = next_ns(); os.utime(path, ns=(ns, ns))
            elif manip == "delete":
                os.remove(path)
            elif manip == "recreate":
                new_content = bytes(rng.randrange(256) for _ in range(rng.choice([0, 3, len(rec_content)])))
                if os.path.exists(path):
                    os.remove(path)
                with open(path, "wb") as fh:
                    fh.write(new_content)
                ns = next_ns(); os.utime(path, ns=(ns, ns))
            elif manip == "shrink_grow":
                with open(path, "wb") as fh:
                    fh.write(b"")
                with open(path, "ab") as fh:
                    fh.write(bytes(reversed(new_content)))
                new_content = bytes(reversed(new_content))
                ns = next_ns(); os.utime(path, ns=(ns, ns))
            elif manip == "mode_only_restore":
                old = os.stat(path)
                os.chmod(path, 0o700)
                os.chmod(path, stat.S_IMODE(old.st_mode))
            # The oracle.
            refreshed = recorded.refreshed(path)
            counters["file_checks"] += 1
            counters["evaluations"] += 1
            if not os.path.exists(path):
                if not refreshed.is_unknown and not recorded.is_unknown:
                    vio("deleted file not reported as unknown", f"{seq}", {"seq": seq})
                classes.add(f"{manip}|gone")
                if refreshed != recorded:
                    recorded, rec_content = refreshed, b""
                continue
            st = os.stat(path)
            with open(path, "rb") as fh:
                on_disk = fh.read()
            assert on_disk == new_content, (manip, len(on_disk), len(new_content))
            truth_changed = (
                recorded.is_unknown
                or hashlib.sha256(on_disk).digest() != recorded.digest
                or st.st_size != recorded.size
                or st.st_mode != recorded.mode
            )
            stat_differs = (
                st.st_mtime != recorded.mtime or st.st_size != recorded.size
                or st.st_ino != recorded.inode or st.st_mode != recorded.mode
            )
            classes.add(f"{manip}|stat_differs={stat_differs}|changed={truth_changed}")
            if truth_changed and stat_differs:
                counters["file_changed_detectable"] += 1
                if refreshed == recorded:
                    what = [n for n, a, b in (("mtime", st.st_mtime, recorded.mtime),
                                              ("size", st.st_size, recorded.size),
                                              ("inode", st.st_ino, recorded.inode),
                                              ("mode", st.st_mode, recorded.mode)) if a != b]
                    vio("changed file with differing " + "+".join(what) + " reported as unchanged",
                        f"manipulations {seq}: stat differs in {what}, content/size/mode changed, "
                        f"refreshed() == recorded", {"seq": seq, "differs": what})
                elif (refreshed.digest != hashlib.sha256(on_disk).digest()
                      or refreshed.size != st.st_size or refreshed.mode != st.st_mode):
                    vio("refreshed hash does not describe the file on disk", f"{seq}", {"seq": seq})
            elif truth_changed:
                counters["file_changed_undetectable"] += 1
            else:
                counters["file_unchanged"] += 1
                if refreshed != recorded:
                    vio("unchanged file reported as changed", f"{seq}", {"seq": seq})
            if refreshed != recorded or stat_differs:
                # What StepUp would store next.
                if refreshed != recorded:
                    recorded, rec_content = refreshed, on_disk
                elif not truth_changed:
                    # refreshed may carry new stat memory even when equal
                    recorded = refreshed
        if os.path.exists(path):
            os.remove(path)
    return classes
