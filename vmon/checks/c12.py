"""C12: job, resource and hold limits are never exceeded.

Online monitor in the simulated-step layer: command starts and ends are the only instants at
which the number of running commands and the units of resources in use change, so checking at
every command start is checking every instant.
  jobs       running commands (this one included) <= njob
  resources  for every named resource: units of all running commands <= available units;
             a command never starts with a resource that is not defined
  hold       a step declared while its declarer had an open hold does not start its command
             before the outermost release of that declarer (or the declarer's end)
Hash checks and promoted hash jobs execute no command and are not counted.
"""

from __future__ import annotations

import os
import random
import shutil

from vmon import gen, harness as H, invariants as I

PROPERTY = "C12"
LEVEL = "exploration"
RULE = (
    "distinct (njob, available resources, running-command multiset size, resource units in use, "
    "started inside/after a hold) observations at command starts with at least one other "
    "command running or a resource or hold involved"
)
TIMEOUT = 600
REQUIRED_COUNTERS = ["cmd_starts", "concurrent_starts", "resource_starts", "held_declarations",
                     "held_starts_checked", "nested_holds", "declarations_recorded",
                     "declared_resources_used", "redeclared_resource_reruns"]
ASSUMPTIONS = ["simulated steps (mode A); the resources of a step are those of its last define_step "
               "request that the director accepted, recorded at the client boundary (the "
               "step_resource table of the last committed snapshot only for steps that were never "
               "declared in the recorded history)"]


def gen_cases(tier, seed):
    n = 40 if tier == "quick" else 800
    cases = [{"id": f"c12-seed-{k}", "seed": seed, "scenario": k} for k in ("resources", "resources_redeclared", "nested_hold", "fail_in_hold", "grand_hold", "recycled_while_holding")]
    cases += [{"id": f"c12-{seed}-{i}", "seed": seed * 4231 + i} for i in range(n)]
    return cases


def parse_resources(text):
    out = {}
    if not text:
        return out
    for part in text.split(","):
        name, _, num = part.partition(":")
        out[name.strip()] = int(num) if num else 1
    return out


class LimitMonitor:
    """Receives every harness event (see Build.event)."""

    def __init__(self, cfg, commit_mon, vio, counters, classes, declared=None):
        # label -> resources of the last define_step request that the director accepted, recorded
        # at the client boundary; it outlives one build (the claims of a step that is not declared
        # again are those of its last declaration)
        self.declared = declared if declared is not None else {}
        self.pending_define = {}
        self.njob = cfg.get("njob", 1)
        self.avail = parse_resources(cfg.get("resources"))
        self.mon = commit_mon
        self.vio = vio
        self.counters = counters
        self.classes = classes
        self.running = {}      # job -> (label, resources)
        self.depth = {}        # declarer job -> current hold depth
        self.held_decl = {}    # declared label -> declarer job (declared at depth > 0)
        self.open_holds = set()  # labels of declarers whose outermost hold is still open
        self.generation = {}     # declarer label -> number of outermost holds opened so far
        self.label_of_job = {}

    def recorded_resources_of(self, label):
        snap = self.mon.prev
        if snap is None:
            return {}
        node = next((i for i, n in snap["node"].items() if n[0] == "step" and n[1] == label), None)
        if node is None:
            return {}
        return {name: units for (n, name), units in snap["step_resource"].items() if n == node}

    def resources_of(self, label):
        """What the step asked for in its last accepted declaration (client boundary); the
        step_resource table only for steps this history never saw declared (the initial plan)."""
        recorded = self.recorded_resources_of(label)
        if label in self.declared:
            self.counters["declared_resources_used"] = self.counters.get("declared_resources_used", 0) + 1
            if self.declared[label] != recorded:
                self.counters["recorded_differs_from_declared"] = \
                    self.counters.get("recorded_differs_from_declared", 0) + 1
            return dict(self.declared[label])
        return recorded

    def on_event(self, build, ev):
        t = ev["type"]
        if t == "cmd_start":
            label, job = ev["step"], ev["job"]
            res = self.resources_of(label)
            self.running[job] = (label, res)
            self.label_of_job[job] = label
            self.counters["cmd_starts"] += 1
            n = len(self.running)
            if n > 1:
                self.counters["concurrent_starts"] += 1
            if n > self.njob:
                self.vio("more commands running than the job limit",
                         f"{n} commands running with njob={self.njob}: {[l[:40] for l, _ in self.running.values()]}")
            used = {}
            for _l, r in self.running.values():
                for name, units in r.items():
                    used[name] = used.get(name, 0) + units
            if res:
                self.counters["resource_starts"] += 1
            for name, units in res.items():
                if name not in self.avail:
                    self.vio("command started with an undefined resource",
                             f"{label[:60]} requires {name}:{units}, available {self.avail}")
                elif used[name] > self.avail[name]:
                    self.vio("running commands hold more units of a resource than available",
                             f"{name}: {used[name]} in use > {self.avail[name]} available when "
                             f"{label[:60]} started; running={[(l[:30], r) for l, r in self.running.values()]}")
            held = self.held_decl.get(label)
            held_by = held[0] if held else None
            if held is not None:
                self.counters["held_starts_checked"] += 1
                if held_by in self.open_holds and self.generation.get(held_by) == held[1]:
                    self.vio("step started before the hold of its declaring step was released",
                             f"{label[:80]} started while {held_by[:60]} still holds")
            if n > 1 or res or held_by is not None:
                self.classes.add(repr((self.njob, tuple(sorted(self.avail.items())), n,
                                       tuple(sorted(used.items())), held_by is not None)))
        elif t == "cmd_end":
            job = ev["job"]
            self.running.pop(job, None)
        elif t == "rpc" and ev["name"] == "define_step":
            self.pending_define[ev["job"]] = ev["args"]
        elif t == "rpc_done" and ev["name"] == "define_step":
            args = self.pending_define.pop(ev["job"], None)
            if args is not None and ev.get("ok"):
                cmd, wd = args[0], args[5]
                label = cmd if wd in (".", "", "./") else f"{cmd}  # wd={wd}"
                self.declared[label] = {k: int(v) for k, v in dict(args[7] or {}).items()}
                self.counters["declarations_recorded"] = self.counters.get("declarations_recorded", 0) + 1

    def hold_tracker(self, mon, prev, snap, tx):
        """Commit-time truth about holds (runs inside the committing transaction)."""
        if snap is None:
            return
        for i, st in snap["step"].items():
            label = snap["node"][i][1]
            now = st["_holding"]
            before = prev["step"][i]["_holding"] if prev is not None and i in prev["step"] else 0
            if now > 0 and before == 0:
                self.open_holds.add(label)
                self.generation[label] = self.generation.get(label, 0) + 1
            if now >= 2 and now > before:
                self.counters["nested_holds"] += 1
            if now == 0 and before > 0:
                self.open_holds.discard(label)
        for i, (kind, label, creator, detached) in snap["node"].items():
            if kind != "step" or creator is None or creator not in snap["step"]:
                continue
            if snap["step"][creator]["_holding"] <= 0:
                continue
            old = prev["node"].get(i) if prev is not None else None
            if old is None or old[2] != creator or old[3] != detached:
                # declared (or re-declared) by a step that is holding right now
                declarer = snap["node"][creator][1]
                self.held_decl[label] = (declarer, self.generation.get(declarer, 0))
                self.counters["held_declarations"] += 1


def scenario(name):
    if name in ("resources", "resources_redeclared"):
        # resources_redeclared: a second build in which the plan runs again (one more step) and
        # declares the same steps once more (they are recycled), and all of them have to run again
        # (their input changed): the claims must survive the second declaration.
        from vmon.checks.c10 import scenario_resources
        spec, phases, cfg = scenario_resources()
        return spec, cfg
    steps = {}
    inner = []
    for k in range(3):
        steps[f"H{k}"] = {"kind": "do", "salt": "", "inp": ["src/a.txt"], "out": [f"out/h{k}.txt"]}
    for k in range(2):
        steps[f"N{k}"] = {"kind": "do", "salt": "", "inp": ["src/a.txt"], "out": [f"out/n{k}.txt"]}
    if name == "grand_hold":
        # X defines Y and keeps running for a while; Y holds, defines Z0/Z1 and releases late.
        # X may finish (a state change that re-derives the safety of its whole subtree) while Y
        # is still holding.
        import json as _json
        z = [_json.dumps([{"a": "read", "path": "src/a.txt"}, {"a": "write", "path": f"out/z{k}.txt"}])
             for k in range(2)]
        y = [{"a": "hold"}] + [{"a": "step", "cmd": "do " + z[k], "inp": ["src/a.txt"], "out": [f"out/z{k}.txt"]}
                               for k in range(2)] + [{"a": "gate", "name": f"y{k}"} for k in range(6)] + \
            [{"a": "release"}, {"a": "write", "path": "out/y.txt"}]
        x = [{"a": "step", "cmd": "do " + _json.dumps(y), "out": ["out/y.txt"]}] + \
            [{"a": "gate", "name": f"x{k}"} for k in range(3)] + [{"a": "write", "path": "out/x.txt"}]
        items = [["static", ["src/a.txt"]],
                 ["raw", {"a": "step", "cmd": "do " + _json.dumps(x), "out": ["out/x.txt"]}]]
        return {"sources": {"src/a.txt": "a\n"}, "env": {}, "steps": {}, "plans": {".": items}}, {"njob": 4}
    if name == "recycled_while_holding":
        # S defines H and then amends the output of the slow step L, so S is deferred and runs a second
        # time when L is done.  H is inside its hold all that time: it is detached when S is
        # dispatched again and recycled unchanged when S declares it again.  H then declares X and
        # releases; its hold counter must have survived the recycling.
        import json as _json
        x = _json.dumps([{"a": "read", "path": "src/a.txt"}, {"a": "write", "path": "out/x.txt"}])
        hprog = [{"a": "hold"}, {"a": "signal", "key": "h_holding"}, {"a": "await", "key": "late_done"},
                 {"a": "sleep", "s": 0.15},
                 {"a": "step", "cmd": "do " + x, "inp": ["src/a.txt"], "out": ["out/x.txt"]},
                 {"a": "release"}, {"a": "write", "path": "out/h.txt"}]
        lprog = [{"a": "read", "path": "src/a.txt"}, {"a": "await", "key": "h_holding"}, {"a": "sleep", "s": 0.05},
                 {"a": "write", "path": "out/late.txt"}, {"a": "signal", "key": "late_done"}]
        sprog = [{"a": "step", "cmd": "do " + _json.dumps(hprog), "out": ["out/h.txt"]},
                 {"a": "await", "key": "h_holding"},
                 {"a": "amend", "inp": ["out/late.txt"]}, {"a": "read", "path": "out/late.txt"},
                 {"a": "write", "path": "out/s.txt"}]
        items = [["static", ["src/a.txt"]],
                 ["raw", {"a": "step", "cmd": "do " + _json.dumps(lprog), "inp": ["src/a.txt"], "out": ["out/late.txt"]}],
                 ["raw", {"a": "step", "cmd": "do " + _json.dumps(sprog), "out": ["out/s.txt"], "need": "PLAN"}]]
        return {"sources": {"src/a.txt": "a\n"}, "env": {}, "steps": {}, "plans": {".": items}}, \
            {"njob": 4, "policy": "free"}
    if name == "nested_hold":
        items = [["static", ["src/a.txt"]],
                 ["hold", [["step", "H0"], ["hold", [["step", "H1"], ["step", "H2"]]], ["step", "N0"]]],
                 ["step", "N1"]]
        return {"sources": {"src/a.txt": "a\n"}, "env": {}, "steps": steps, "plans": {".": items}}, {"njob": 3}
    # fail_in_hold: a step defines others inside a hold and then fails
    steps["D"] = {"kind": "do", "salt": "", "inp": ["src/a.txt"], "out": ["out/d.txt"],
                  "defines": ["H0", "H1"], "hold_defines": True, "fail": True}
    items = [["static", ["src/a.txt"]], ["step", "D"], ["step", "N0"]]
    return {"sources": {"src/a.txt": "a\n"}, "env": {}, "steps": steps, "plans": {".": items}}, \
        {"njob": 3, "keep_going": True}


def run_case(case):
    rng = random.Random(case["seed"])
    counters = dict.fromkeys(["evaluations", "builds"] + REQUIRED_COUNTERS, 0)
    violations = []
    classes = set()
    witness = {"case": case["id"]}

    def vio(mechanism, message):
        if sum(1 for v in violations if v["mechanism"] == mechanism) < 2:
            violations.append({"mechanism": mechanism, "message": f"{case['id']}: {message}",
                               "witness": dict(witness)})

    redeclared = case.get("scenario") == "resources_redeclared"
    nproj = 6 if redeclared else 1 if "scenario" in case else 3
    for h in range(nproj):
        sub = f"p{h}"
        os.makedirs(sub)
        cwd = os.getcwd()
        os.chdir(sub)
        try:
            if "scenario" in case:
                spec, cfg0 = scenario(case["scenario"])
                phases = []
                cfgs = [cfg0]
                if redeclared:
                    import copy
                    nxt = copy.deepcopy(spec)
                    nxt["sources"]["src/a.txt"] = "b\n"
                    nxt["steps"]["N"] = {"kind": "do", "salt": "", "inp": ["src/a.txt"], "out": ["out/n.txt"]}
                    nxt["plans"]["."].append(["step", "N"])
                    phases = [{"edits": [["redeclare", "plan gets one more step, the input of all steps changes"]],
                               "spec": nxt}]
                    cfgs = [cfg0, dict(cfg0, policy=rng.choice(["serial", "jitter", "free"]))]
            else:
                spec = gen.gen_project(rng, prob={"res": 0.6, "hold": 0.5, "hold_defines": 0.7,
                                                  "defines": 0.4})
                phases = gen.gen_history(rng, spec, nphase=rng.randint(0, 2), breaks=0.2)
                cfgs = [{"njob": rng.choice([1, 2, 3, 4]),
                         "resources": rng.choice(["cpu:2,gpu:2", "cpu:2,gpu:1", "cpu:3", "cpu:1,gpu:1", None]),
                         "keep_going": rng.random() < 0.3,
                         **({"db_delay": {"p": rng.choice([0.1, 0.4]), "max": 0.003, "seed": rng.randrange(1 << 30)}} if rng.random() < 0.3 else {}),
                         **({"thread_delay": {"p": rng.choice([0.3, 1.0]), "max": 0.02, "seed": rng.randrange(1 << 30)}} if rng.random() < 0.3 else {})}
                        for _ in range(len(phases) + 1)]
            witness.update({"spec": spec, "configs": cfgs})
            files = gen.render(spec)
            declared = {}
            for k, cur in enumerate([spec] + [p["spec"] for p in phases]):
                if k:
                    files = gen.render(cur, previous=files)
                cfg = cfgs[k]
                for schedule in range(1 if redeclared else 8 if "scenario" in case else 1):
                    if schedule:
                        shutil.rmtree(".stepup", ignore_errors=True)
                        shutil.rmtree("out", ignore_errors=True)
                        declared.clear()
                    mon = I.make_monitor()
                    lim = LimitMonitor(cfg, mon, vio, counters, classes, declared)
                    mon.checkers.append(lim.hold_tracker)
                    ctl = H.Controller(cfg.get("policy") or rng.choice(["serial", "serial", "jitter"]), rng.randrange(1 << 30))
                    b = H.run_build(cfg, ctl=ctl, monitors=[mon, lim], env=dict(cur.get("env", {})), timeout=90)
                    counters["builds"] += 1
                    counters["evaluations"] += 1
                    if b.error is not None:
                        vio("director raised or hung", str(b.error)[:600])
                    if redeclared and k == 1:
                        counters["redeclared_rebuilds"] = counters.get("redeclared_rebuilds", 0) + 1
                        reran = sum(1 for e in b.events if e["type"] == "cmd_start" and e["step"] in declared
                                    and declared[e["step"]])
                        counters["redeclared_resource_reruns"] = counters.get("redeclared_resource_reruns", 0) + reran
                    if case.get("scenario") == "recycled_while_holding":
                        counters["recycled_while_holding_runs"] = counters.get("recycled_while_holding_runs", 0) + 1
                        refused = [e for e in b.events if e["type"] == "rpc_done" and not e.get("ok", True)
                                   and e["name"] in ("release_dispatch", "hold_dispatch", "define_step")]
                        if refused or b.returncode is None or b.returncode.value != 0:
                            vio("request of a running step that its creator declared again is refused",
                                f"status {b.returncode}; {[(e['name'], str(e.get('message'))[-200:]) for e in refused][:2]}")
        finally:
            os.chdir(cwd)
            shutil.rmtree(sub, ignore_errors=True)
    return {
        "status": "violation" if violations else "held",
        "violations": violations,
        "counters": counters,
        "nontrivial": sorted(classes),
        "nontrivial_many": True,
        "sample": {"case": case["id"], "classes": sorted(classes)[:3]},
    }
