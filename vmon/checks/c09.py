"""C09: the stored workflow satisfies its invariants after every transaction.

The commit monitor (E4) checks, inside every committing transaction of every build:
reachability == not detached, dependency kinds and acyclicity, no attached UNDECLARED or
undeclared file, outputs of SUCCEEDED steps are BUILT/VOLATILE, state/hash consistency,
`deferred` only on PENDING, `_has_hash` mirrors `step_hash`, `step_need_count` equals a recount,
step and file transition whitelists, dispatch only inside `pop_next_job`.
It also watches for internal errors: ConsistencyError, sqlite3.IntegrityError, AssertionError in
any request or build (UsageError subclasses are legitimate).

Workloads: (i) generated projects and edit histories, valid and hostile; (ii) hostile request
sequences through the real RPC methods (conflicts, cycles, volatile inputs, odd labels, release
without hold, stale job ids, duplicates) from one, two or three concurrently running creators,
exhaustive over short sequences of a tiny universe and seeded for longer ones; every workload is
followed by a restart under STEPUP_DEBUG=1 (strict consistency checks at open).
"""

from __future__ import annotations

import itertools
import json
import os
import random
import shutil

from vmon.commitmon import DOUBLE_RUN_MECH
from vmon import gen, harness as H, invariants as I
from vmon.checks import c10

PROPERTY = "C09"
LEVEL = "exploration"
RULE = (
    "distinct table-state fingerprints seen at commits: multiset of (kind, state, detached) of "
    "all nodes plus the number of dependency and dynamic edges"
)
TIMEOUT = 600
REQUIRED_COUNTERS = ["structure_checks", "transition_checks", "raw_requests", "raw_rejected",
                     "restarts_strict", "commits_checked"]
ASSUMPTIONS = [
    "request arguments are restricted to what api.py can emit (normalised paths); a wildcard in "
    "a static tree path reaches a deliberate ConsistencyError guard and is out of scope",
]

INTERNAL = ("ConsistencyError", "IntegrityError", "AssertionError")
STRUCT_MECHS_PREFIXES = (
    "BUILT output of a step",
    "detached flag", "dependency edge", "dependency cycle", "attached file", "file state",
    "succeeded step has", "deferred flag", "_has_hash", "step_need_count", "step moves along",
    "attached file changes role", "confirmed static file", "dispatch outside",
    "statement executed off", "statement of another task", "harness:",
)

PATHS = ["a", "a/b", "ab", "A", "a/b/c", "plan.py", "o.txt", "d/", "a/"]


def gen_cases(tier, seed):
    n = 24 if tier == "quick" else 600
    cases = [{"id": f"c09-hist-{seed}-{i}", "seed": seed * 6151 + i, "kind": "hist"} for i in range(n)]
    cases += [{"id": f"c09-raw-{seed}-{i}", "seed": seed * 6151 + 5000 + i, "kind": "raw",
               "n": 12 if tier == "quick" else 40} for i in range(n)]
    cases.append({"id": "c09-seed-confirm-race", "seed": seed, "kind": "seed"})
    cases.append({"id": "c09-seed-takeover-race", "seed": seed, "kind": "takeover"})
    cases.append({"id": "c09-seed-redefine-running", "seed": seed, "kind": "redefine_running"})
    cases += example_cases("c09", tier, seed)
    nchunks = 8 if tier == "quick" else 64
    for k in range(nchunks):
        cases.append({"id": f"c09-exh-{k}", "seed": seed, "kind": "exhaustive", "chunk": k,
                      "nchunks": nchunks, "length": 2 if tier == "quick" else 3})
    return cases


REQUEST_KINDS = ["static", "tree", "step_out", "step_inp", "step_vol", "amend_inp", "amend_out",
                 "amend_vol", "glob", "hold", "release", "stale", "wdcomment", "dup_step", "info"]


def example_cases(prefix, tier, seed):
    """The repository's own example scripts (real CLI, real step processes, watch mode) with the
    monitors injected into the director process: a few in the quick tier, all in the thorough one."""
    from vmon import examples
    repo = os.environ.get("VERIF_REPO", "/repo")
    names = examples.example_names(repo)
    rng = random.Random(seed * 131 + 7)
    if tier == "quick":
        names = rng.sample(names, 12)
        chunk = 3
    else:
        chunk = 6
    return [{"id": f"{prefix}-examples-{k // chunk}", "seed": seed, "kind": "examples", "names": names[k:k + chunk]}
            for k in range(0, len(names), chunk)]


def run_examples(case, prefixes=None, mechs=None):
    from vmon import examples
    repo = os.environ.get("VERIF_REPO", "/repo")
    counters = dict.fromkeys(["evaluations", "examples_run", "directors_monitored", "example_commits",
                              "examples_without_director", "example_timeouts"], 0)
    violations = []
    classes = set()
    for name in case["names"]:
        wd = os.path.join(os.getcwd(), "ex-" + name)
        os.makedirs(wd)
        try:
            res = examples.run_example(repo, name, wd)
        finally:
            shutil.rmtree(wd, ignore_errors=True)
        counters["examples_run"] += 1
        counters["evaluations"] += 1
        if res["rc"] == "timeout":
            counters["example_timeouts"] += 1
        if not res["directors"]:
            counters["examples_without_director"] += 1
        for d in res["directors"]:
            if not d.get("attached"):
                continue
            counters["directors_monitored"] += 1
            counters["example_commits"] += d.get("write_commits", 0)
            for key, val in (d.get("counters") or {}).items():
                if key.startswith(("structure_", "transition_", "dispatch", "cached_")):
                    counters[key] = counters.get(key, 0) + val
                if key.startswith("step_") or key.startswith("file_"):
                    classes.add(key)
            for mech, msg in d.get("findings") or []:
                ok = (prefixes is not None and mech.startswith(prefixes)) or (mechs is not None and mech in mechs)
                if ok and sum(1 for v in violations if v["mechanism"] == mech) < 2:
                    violations.append({"mechanism": mech, "message": f"example {name}: {msg}",
                                       "witness": {"example": name, "case": case["id"]}})
        for err in res["hook_errors"]:
            violations.append({"mechanism": "harness: site hook failed", "message": f"example {name}: {err}",
                               "witness": {"example": name}})
    return {"status": "violation" if violations else "held", "violations": violations, "counters": counters,
            "nontrivial": sorted(f"{case['id']}:{c}" for c in classes)[:40], "nontrivial_many": True,
            "sample": {"case": case["id"], "examples": case["names"]}}


def make_request(rng, kind, path=None):
    p = path or rng.choice(PATHS)
    q = rng.choice(PATHS)
    f = p.rstrip("/") or "a"
    if kind == "static":
        if f in ("a", "a/b", "d"):
            # a directory on disk: api.static() classifies it as a tree, it never sends it as a file
            return {"a": "raw", "name": "declare_static", "args": [[f + "/"], [], []]}
        return {"a": "raw", "name": "declare_static", "args": [[], [f], []]}
    if kind == "tree":
        # api.static() only sends a tree for an existing directory
        d = f if f in ("a", "a/b", "d") else rng.choice(["a", "a/b", "d"])
        return {"a": "raw", "name": "declare_static", "args": [[d + "/"], [], []]}
    if kind == "step_out":
        return {"a": "raw", "name": "define_step",
                "args": [f"do [] #{f}", [], [], [f], [], ".", 32, {}, False, None, None]}
    if kind == "step_inp":
        return {"a": "raw", "name": "define_step",
                "args": [f"do [] #i{f}", [f], [], [q.rstrip("/") + ".out"], [], ".", 32, {}, False, None, None]}
    if kind == "step_vol":
        return {"a": "raw", "name": "define_step",
                "args": [f"do [] #v{f}", [], [], [], [f], ".", 31, {}, False, None, None]}
    if kind == "amend_inp":
        return {"a": "raw", "name": "amend_step", "args": [[f], [], [], []]}
    if kind == "amend_out":
        return {"a": "raw", "name": "amend_step", "args": [[], [], [f], []]}
    if kind == "amend_vol":
        return {"a": "raw", "name": "amend_step", "args": [[], [], [], [f]]}
    if kind == "glob":
        pat = rng.choice(["*", "a*", "a/*", "**", "${*n}/b", "*.txt"])
        return {"a": "raw", "name": "register_glob", "args": [pat, {}, [f]]}
    if kind == "hold":
        return {"a": "raw", "name": "hold_dispatch", "args": []}
    if kind == "release":
        return {"a": "raw", "name": "release_dispatch", "args": []}
    if kind == "stale":
        return {"a": "raw", "name": "define_step", "job": 9999,
                "args": ["do [] #stale", [], [], [], [], ".", 32, {}, False, None, None]}
    if kind == "wdcomment":
        return {"a": "raw", "name": "define_step",
                "args": ["do []  # wd=x", [], [], [], [], rng.choice([".", "w"]), 32, {}, False, None, None]}
    if kind == "dup_step":
        return {"a": "raw", "name": "define_step",
                "args": ["do [] #dup", [], [], [], [], ".", 32, {}, False, None, None]}
    if kind == "info":
        return {"a": "raw", "name": "get_step_info", "args": []}
    raise AssertionError(kind)


def fingerprint(snap):
    counts = {}
    for i, (kind, lab, creator, detached) in snap["node"].items():
        state = None
        if i in snap["file"]:
            state = snap["file"][i][0]
        elif i in snap["step"]:
            state = snap["step"][i]["state"]
        key = (kind, state, detached)
        counts[key] = counts.get(key, 0) + 1
    return (tuple(sorted(counts.items(), key=str)), min(len(snap["dep"]), 12),
            min(len(snap["dynamic_dep"]), 4))


def run_case(case):
    if case.get("kind") == "examples":
        res = run_examples(case, prefixes=tuple(p for p in STRUCT_MECHS_PREFIXES if not p.startswith("harness")))
        for key in REQUIRED_COUNTERS:
            res["counters"].setdefault(key, 0)
        return res
    rng = random.Random(case["seed"])
    counters = dict.fromkeys(["evaluations", "builds", "structure_checks", "transition_checks",
                              "commits_checked", "raw_requests", "raw_rejected", "raw_internal",
                              "restarts_strict", "rollbacks", "gremlin_hits"], 0)
    violations = []
    prints = set()

    def vio(mechanism, message, witness):
        if sum(1 for v in violations if v["mechanism"] == mechanism) < 2:
            violations.append({"mechanism": mechanism, "message": message, "witness": witness})

    witness = {"case": case["id"]}

    def fp_checker(mon, prev, snap, tx):
        if snap is not None and len(prints) < 4000:
            prints.add(hash(fingerprint(snap)))

    def collect(mon, build, what):
        counters["builds"] += 1
        counters["commits_checked"] += mon.nwrite_commits
        counters["rollbacks"] += mon.nrollback
        for key in ("structure_checks", "transition_checks"):
            counters[key] += mon.counters.get(key, 0)
        for mech, msg, wit in mon.findings:
            if mech.startswith(STRUCT_MECHS_PREFIXES):
                vio(mech, f"{what}: {msg}", json.loads(json.dumps({**witness, **wit}, default=str)))
        if build.error is not None and build.error[0] != "watchdog":
            mech = "internal error raised by the director"
            vio(mech, f"{what}: {build.error[0]}: {build.error[1][-1500:]}",
                json.loads(json.dumps(witness, default=str)))
        for e in build.events:
            if e["type"] in ("rpc_done", "raw_done") and not e.get("ok", True):
                text = e.get("message", "")
                if e["type"] == "raw_done":
                    counters["raw_rejected"] += 1
                if e.get("error") == "RPCError" and any(name in text for name in INTERNAL):
                    which = next(name for name in INTERNAL if name in text)
                    counters["raw_internal"] += 1
                    vio(f"request makes the director raise {which}",
                        f"{what}: {e['name']}{tuple(e.get('args', ()))!r}: ...{text[-700:]}",
                        {**witness, "request": [e["name"], e.get("args")]})
            if e["type"] == "raw_done":
                counters["raw_requests"] += 1
        for tag in ("ERROR",):
            for msg in build.tagged(tag):
                if "draining due to unexpected input changes" in str(msg) or "Could not hash" in str(msg) \
                        or "Invalid build target" in str(msg) or "Hash cancelled" in str(msg) \
                        or "glob match(es) are files that a step builds" in str(msg):
                    continue
                vio("ERROR report during a build", f"{what}: {str(msg)[:500]}", witness)
        for level, name, msg in build.log_records:
            if level in ("ERROR", "CRITICAL"):
                vio("error record in the director log", f"{what}: {name}: {msg[:500]}", witness)

    def monitor(cfg=None, dropped=None):
        mon = I.make_monitor(defer_cap=(cfg or {}).get("defer_cap", 100), dropped=dropped,
                             extra=[fp_checker])
        return mon

    def strict_restart(what):
        """Open the database again with strict consistency checks and run a build."""
        mon = monitor()
        b = H.run_build({"njob": 2, "resources": "cpu:2,gpu:2"}, monitors=[mon],
                        env={"STEPUP_DEBUG": "1"}, timeout=60)
        counters["restarts_strict"] += 1
        collect(mon, b, what + " (strict restart)")

    if case["kind"] == "seed":
        os.makedirs("s0")
        os.chdir("s0")
        for p in ("a/b/c", "o.txt"):
            H.write_file(p, "x\n")
        gates = lambda n, tag: [{"a": "gate", "name": f"{tag}{k}"} for k in range(n)]  # noqa: E731
        # A running step whose creator failed is detached: its declarations claim nothing.
        # All four job slots stay taken, so the hash job that must confirm a/b/c stays queued
        # while the same detached step re-declares the path as a volatile output.
        sub = gates(5, "s") + [
            {"a": "raw", "name": "declare_static", "args": [["a/"], [], []]},
            {"a": "raw", "name": "define_step",
             "args": ["do [] #vol", [], [], [], ["a/b/c"], ".", 31, {}, False, None, None]},
        ] + gates(3, "e")
        other = [{"a": "raw", "name": "amend_step", "args": [[], [], ["a/b/c"], []]}] + gates(12, "o")
        mid = [{"a": "step", "cmd": "do " + json.dumps(other), "need": "PLAN"},
               {"a": "step", "cmd": "do " + json.dumps(sub), "need": "PLAN"},
               {"a": "gate", "name": "m0"}, {"a": "fail", "rc": 2}]
        filler = gates(14, "f")
        plan = [{"a": "step", "cmd": "do " + json.dumps(mid), "need": "PLAN"},
                {"a": "step", "cmd": "do " + json.dumps(filler)}] + gates(16, "p")
        witness["plan"] = plan
        H.write_plan("plan.py", plan)
        for seed in range(40):
            shutil.rmtree(".stepup", ignore_errors=True)
            mon = monitor()
            ctl = H.Controller("serial", seed)
            b = H.run_build({"njob": 4, "keep_going": True}, ctl=ctl, monitors=[mon], timeout=60)
            collect(mon, b, f"{case['id']} schedule {seed}")
            counters["evaluations"] += 1
        os.chdir("..")
        shutil.rmtree("s0", ignore_errors=True)
    elif case["kind"] == "redefine_running":
        os.makedirs("s2")
        os.chdir("s2")
        H.write_file("o.txt", "x\n")
        # C0 defines a slow step T; the plan fails, which detaches C0 and T while both run; C0 then
        # defines T again under the same label with another output (or another input), so T is not
        # recycled as it is but created again while its command runs.
        tcmd = "do " + json.dumps([{"a": "sleep", "s": 0.25}])
        variants = [([], ["o2.out"]), (["o.txt"], ["o1.out"]), ([], ["o1.out", "o2.out"]), ([], [])]
        for rep in range(12):
            inp2, out2 = variants[rep % len(variants)]
            c0 = [{"a": "raw", "name": "define_step", "args": [tcmd, [], [], ["o1.out"], [], ".", 32, {}, False, None, None]},
                  {"a": "signal", "key": "t_defined"}, {"a": "await", "key": "plan_failing"},
                  {"a": "sleep", "s": 0.03 + 0.01 * (rep % 3)},
                  {"a": "raw", "name": "define_step", "args": [tcmd, inp2, [], out2, [], ".", 32, {}, False, None, None]},
                  {"a": "sleep", "s": 0.3}]
            plan = [{"a": "static", "files": ["o.txt"]},
                    {"a": "step", "cmd": "do " + json.dumps(c0), "need": "PLAN"},
                    {"a": "await", "key": "t_defined"}, {"a": "sleep", "s": 0.02},
                    {"a": "signal", "key": "plan_failing"}, {"a": "fail", "rc": 2}]
            witness["plan"] = plan
            H.write_plan("plan.py", plan)
            shutil.rmtree(".stepup", ignore_errors=True)
            mon = monitor()
            b = H.run_build({"njob": 4, "keep_going": True}, ctl=H.Controller("free", rep), monitors=[mon], timeout=60)
            collect(mon, b, f"{case['id']} repetition {rep}")
            counters["evaluations"] += 1
            counters["redefinitions_while_running"] = counters.get("redefinitions_while_running", 0) + \
                sum(1 for e in b.events if e["type"] == "raw_done" and e.get("ok") and e["name"] == "define_step") - 1
            for mech, msg, wit in mon.findings:
                if mech == DOUBLE_RUN_MECH:
                    vio(mech, f"{case['id']} repetition {rep}: {msg}", json.loads(json.dumps(witness, default=str)))
        os.chdir("..")
        shutil.rmtree("s2", ignore_errors=True)
    elif case["kind"] == "takeover":
        os.makedirs("s1")
        os.chdir("s1")
        for p in ("a/b/c", "o.txt"):
            H.write_file(p, "x\n")
        # Two steps that their creator leaves detached while they run (it fails): OWNER amends
        # a/b/c as its output and ends; TAKER declares the same path (as part of a static tree, as a
        # volatile output, as the output of another step) while the director hashes OWNER's outputs
        # in a thread that is slow to start.
        takers = [
            {"a": "raw", "name": "declare_static", "args": [["a/"], [], []]},
            {"a": "raw", "name": "define_step",
             "args": ["do [] #vol", [], [], [], ["a/b/c"], ".", 31, {}, False, None, None]},
            {"a": "raw", "name": "define_step",
             "args": ["do [] #out", [], [], ["a/b/c"], [], ".", 31, {}, False, None, None]},
            {"a": "raw", "name": "amend_step", "args": [[], [], [], ["a/b/c"]]},
        ]
        for rep in range(32):
            owner = [{"a": "raw", "name": "amend_step", "args": [[], [], ["a/b/c"], []]},
                     {"a": "await", "key": "failed"}, {"a": "signal", "key": "go"}]
            taker = [{"a": "await", "key": "go"}, {"a": "sleep", "s": 0.002 + 0.004 * (rep % 8)},
                     takers[rep % len(takers)], {"a": "sleep", "s": 0.05}]
            mid = [{"a": "step", "cmd": "do " + json.dumps(owner), "need": "PLAN"},
                   {"a": "step", "cmd": "do " + json.dumps(taker), "need": "PLAN"},
                   {"a": "sleep", "s": 0.02}, {"a": "fail", "rc": 2}]
            waker = [{"a": "sleep", "s": 0.06}, {"a": "signal", "key": "failed"}, {"a": "sleep", "s": 0.1}]
            plan = [{"a": "step", "cmd": "do " + json.dumps(mid), "need": "PLAN"},
                    {"a": "step", "cmd": "do " + json.dumps(waker)}]
            witness["plan"] = plan
            H.write_plan("plan.py", plan)
            shutil.rmtree(".stepup", ignore_errors=True)
            mon = monitor()
            b = H.run_build({"njob": 4, "keep_going": True,
                             "thread_delay": {"p": 1.0, "max": 0.04, "seed": case["seed"] * 100 + rep}},
                            ctl=H.Controller("free", rep), monitors=[mon], timeout=60)
            collect(mon, b, f"{case['id']} repetition {rep}")
            counters["evaluations"] += 1
            counters["takeover_attempts"] = counters.get("takeover_attempts", 0) + \
                sum(1 for e in b.events if e["type"] == "raw_done" and e.get("ok") and e["name"] != "amend_step")
        os.chdir("..")
        shutil.rmtree("s1", ignore_errors=True)
    elif case["kind"] == "hist":
        for h in range(3):
            sub = f"h{h}"
            os.makedirs(sub)
            cwd = os.getcwd()
            os.chdir(sub)
            try:
                spec = gen.gen_project(rng)
                if rng.random() < 0.6:
                    spec = c10.add_hostility(rng, spec)
                phases = gen.gen_history(rng, spec, nphase=rng.randint(1, 3), breaks=0.2)
                witness.update({"spec": spec, "phases": [p["edits"] for p in phases]})
                files = gen.render(spec)
                dropped = set()
                for k, cur in enumerate([spec] + [p["spec"] for p in phases]):
                    if k:
                        files = gen.render(cur, previous=files)
                    cfg = c10.hostile_cfg(rng)
                    mon = monitor(cfg, dropped)
                    if rng.random() < 0.3:
                        # a gremlin rewrites an input of a running step: the build fails, the
                        # stored workflow must stay consistent all the same
                        from vmon.checks.c03 import Gremlin
                        ctl = Gremlin(rng.choice(["free", "jitter", "serial"]), rng.randrange(1 << 30), 0.3)
                    else:
                        ctl = H.Controller(rng.choice(["free", "jitter", "serial"]), rng.randrange(1 << 30))
                    b = H.run_build(cfg, ctl=ctl, monitors=[mon], env=dict(cur.get("env", {})), timeout=90)
                    counters["gremlin_hits"] += len(getattr(ctl, "hits", []))
                    collect(mon, b, f"{case['id']}/{sub} build {k}")
                    counters["evaluations"] += 1
                strict_restart(f"{case['id']}/{sub}")
            finally:
                os.chdir(cwd)
                shutil.rmtree(sub, ignore_errors=True)
    else:
        if case["kind"] == "exhaustive":
            kinds = ["static", "tree", "step_out", "step_inp", "amend_out", "amend_inp"]
            paths = ["a", "a/b", "ab"]
            atoms = [(k, p) for k in kinds for p in paths]
            seqs = list(itertools.product(atoms, repeat=case["length"]))
            seqs = seqs[case["chunk"]::case["nchunks"]]
            if case["length"] >= 3:
                rng.shuffle(seqs)
                seqs = seqs[:400]
            scenarios = [[[make_request(rng, k, p) for k, p in seq]] for seq in seqs]
        else:
            scenarios = []
            for _ in range(case["n"]):
                ncreator = rng.choice([1, 2, 3])
                scenarios.append([[make_request(rng, rng.choice(REQUEST_KINDS))
                                   for _ in range(rng.randint(1, 8))] for _ in range(ncreator)])
        for si, creators in enumerate(scenarios):
            sub = f"r{si}"
            os.makedirs(sub)
            cwd = os.getcwd()
            os.chdir(sub)
            try:
                # real files, so that static declarations can be confirmed
                for p in ("a/b/c", "ab", "A", "o.txt", "d/x"):
                    H.write_file(p if not p.endswith("/") else p + "x", "x\n")
                H.write_file("a/b/zz", "z\n")
                plan = []
                if len(creators) == 1:
                    plan = list(creators[0])
                else:
                    for ci, reqs in enumerate(creators[1:]):
                        plan.append({"a": "step", "cmd": "do " + json.dumps(reqs + [{"a": "gate", "name": f"c{ci}"}]),
                                     "need": "PLAN"})
                    plan.extend(creators[0])
                if rng.random() < 0.3:
                    plan.append({"a": "fail", "rc": 2})
                witness["plan"] = json.loads(json.dumps(plan))
                H.write_plan("plan.py", plan)
                mon = monitor()
                ctl = H.Controller(rng.choice(["free", "jitter"]), rng.randrange(1 << 30))
                b = H.run_build({"njob": 3}, ctl=ctl, monitors=[mon], timeout=60)
                collect(mon, b, f"{case['id']}/{sub}")
                counters["evaluations"] += 1
                if case["kind"] == "raw" or si % 8 == 0:
                    strict_restart(f"{case['id']}/{sub}")
            finally:
                os.chdir(cwd)
                shutil.rmtree(sub, ignore_errors=True)
    return {
        "status": "violation" if violations else "held",
        "violations": violations,
        "counters": counters,
        "nontrivial": sorted(prints),
        "nontrivial_many": True,
        "sample": {"case": case["id"]},
    }
