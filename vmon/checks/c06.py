"""C06: cleaning never destroys what StepUp does not own  (engine shared with C07).

File-system ledger over real builds (mode A) and real `stepup clean` runs (the CLI in a
subprocess).  Around every invocation the whole project tree outside `.stepup/` is dumped
({path: digest}, directories); the ledger knows
  user files      everything the generator or a user action wrote (sources, plans, programs, stray
                  files in output directories, outputs overwritten by the user, adopted outputs)
  written         {path: digest} of the last content a step's command wrote (from the step log)
  ever_product    every path that was an output or volatile output in the tables at the end of any
                  build, or was written by a step
Oracle for every path that existed before an invocation and is gone after it:
  not static (attached file in the static role before or after), not a user file, in
  ever_product, and, unless it is a volatile output or `--unsafe` was given, still holding the
  digest the step wrote.
Directories: a directory that disappeared held no file afterwards by construction; the oracle
checks that every file beneath it is judged above.
No removal at all by a build that ended with a non-zero status, was restricted to targets, or
ran with cleaning disabled; no removal by `stepup clean` without --commit.
"""

from __future__ import annotations

import json
import os
import random
import shutil
import subprocess

from vmon import gen, harness as H
from vmon.checks import c04

PROPERTY = "C06"
LEVEL = "exploration"
RULE = ("distinct (invocation kind and options, user action that preceded it, return code class, "
        "kind of path removed or kept) situations judged")
TIMEOUT = 900
REQUIRED_COUNTERS = ["invocations", "builds", "clean_runs", "paths_removed_judged", "builds_that_must_not_clean",
                     "user_actions", "modified_outputs_at_risk", "strays_at_risk", "adopted_at_risk"]
ASSUMPTIONS = ["mode A for builds, the real CLI for `stepup clean`",
               "the user actions are applied between invocations, never while StepUp runs (that is C03/C14)"]

STATIC = (12, 13, 14)
PRODUCT = (15, 16, 17, 18)


def gen_cases(tier, seed):
    n = 40 if tier == "quick" else 700
    return [{"id": f"{PROPERTY.lower()}-{seed}-{i}", "seed": seed * 5003 + i} for i in range(n)]


def tree(root="."):
    files, dirs = {}, set()
    for dp, dns, fns in os.walk(root):
        dns[:] = [d for d in dns if not (dp == root and d == ".stepup")]
        rel = os.path.relpath(dp, root)
        if rel != ".":
            dirs.add(rel)
        for f in fns:
            p = os.path.normpath(os.path.join(rel, f))
            files[p] = H.digest_of(os.path.join(dp, f))
    return files, dirs


class Ledger:
    def __init__(self):
        self.user = {}            # path -> why
        self.written = {}         # path -> digest last written by a step
        self.ever_product = set()
        self.ever_volatile = set()
        self.adopted = set()
        self.created_dirs = set()   # directories that appeared during a build
        self.user_dirs = set()

    def note_user_files(self, spec):
        for path in gen.user_files(spec):
            if path in self.adopted and path not in self.user:
                continue
            self.user[path] = "generated user file"
            d = os.path.dirname(path)
            while d:
                self.user_dirs.add(d)
                d = os.path.dirname(d)

    def note_build(self, build, snap, dirs_before, dirs_after):
        for ev in build.events:
            if ev["type"] == "late_user_write":
                self.user[ev["path"]] = "orphaned output overwritten by the user during the build"
            if ev["type"] == "write":
                self.written[ev["path"]] = ev["digest"]
                self.ever_product.add(ev["path"])
                if "overwritten by the user" in self.user.get(ev["path"], ""):
                    # the step ran again and replaced the user's content with its own
                    del self.user[ev["path"]]
        if snap is not None:
            # A step that was executed again over an output the user had overwritten takes the
            # path back, whether or not its command got as far as writing it: what is found at
            # its output paths after the command is recorded as its (outdated) output.
            executed = {ev["step"] for ev in build.events if ev["type"] == "cmd_start"}
            for fi, (state, _h) in snap["file"].items():
                lab, creator = snap["node"][fi][1], snap["node"][fi][2]
                if state in PRODUCT and creator in snap["step"] and snap["node"][creator][1] in executed \
                        and "overwritten by the user" in self.user.get(lab, ""):
                    late = [ev for ev in build.events if ev["type"] == "late_user_write" and ev["path"] == lab]
                    if not late:
                        del self.user[lab]
            for fi, (state, _h) in snap["file"].items():
                if state in PRODUCT:
                    lab = snap["node"][fi][1]
                    self.ever_product.add(lab)
                    if state == 18:
                        self.ever_volatile.add(lab)
        self.created_dirs |= (dirs_after - dirs_before) - self.user_dirs


# ---------------------------------------------------------------------------------------------
# user actions on disk
# ---------------------------------------------------------------------------------------------

class LateUser(H.Controller):
    """Schedule controller that applies queued user writes at the first action of the build,
    i.e. after the startup scan of the director."""

    def __init__(self, policy, seed, writes):
        super().__init__(policy, seed)
        self.writes = list(writes)

    async def gate(self, info):
        if self.writes:
            for path, content in self.writes:
                if os.path.isfile(path):
                    H.write_file(path, content)
                    self.build.event("late_user_write", path=path)
            self.writes = []
        await super().gate(info)


USER_ACTIONS = ["overwrite_output", "overwrite_and_drop", "drop_and_overwrite_during_build", "replace_by_dir", "adopt_static", "stray_file",
                "modify_volatile_and_drop", "delete_output", "none", "none"]


def drop_step_of(spec, path):
    """Drop the step that declares `path` as output from the plans; returns the step id."""
    for sid, st in spec["steps"].items():
        if path in st.get("out", []) + st.get("vol", []) + st.get("amend_out", []) + st.get("amend_vol", []):
            loc = gen.find_item(spec, lambda it: it[0] == "step" and it[1] == sid)
            if loc is not None:
                wd, lst, i = loc
                del lst[i]
                return sid
    return None


def apply_user_action(rng, kind, spec, ledger, files_now, snap, late_writes):
    """Returns (description, spec changed)."""
    # (an adopted path is a source of the specification from then on: rendering restores it, so
    # it is no candidate for a further action on an "output")
    outs = sorted(p for p in files_now if p in ledger.written and p not in ledger.user and p not in ledger.adopted)
    regular = [p for p in outs if p not in ledger.ever_volatile]
    vols = [p for p in outs if p in ledger.ever_volatile]
    if kind in ("overwrite_output", "overwrite_and_drop") and regular:
        p = rng.choice(regular)
        H.write_file(p, f"user content {rng.randrange(10**6)}\n")
        ledger.user[p] = "output overwritten by the user"
        if kind == "overwrite_and_drop":
            sid = drop_step_of(spec, p)
            return f"overwrite {p} and drop step {sid}", True
        return f"overwrite {p}", False
    if kind == "drop_and_overwrite_during_build" and regular:
        p = rng.choice(regular)
        sid = drop_step_of(spec, p)
        if sid is None:
            return None, False
        late_writes.append((p, f"user content written while the build runs {rng.randrange(10**6)}\n"))
        return f"overwrite {p} during the next build and drop step {sid}", True
    if kind == "replace_by_dir" and regular:
        p = rng.choice(regular)
        sid = drop_step_of(spec, p)
        if sid is None:
            return None, False
        os.unlink(p)
        os.makedirs(p)
        H.write_file(os.path.join(p, "user.txt"), "user file inside\n")
        ledger.user[os.path.join(p, "user.txt")] = "user file in a directory that replaced an output"
        ledger.user_dirs.add(p)
        return f"replace {p} by a directory and drop step {sid}", True
    if kind == "adopt_static" and regular:
        p = rng.choice(regular)
        sid = drop_step_of(spec, p)
        if sid is None:
            return None, False
        with open(p) as fh:
            content = fh.read()
        edited = rng.random() < 0.5
        if edited:
            content += "adopted and edited\n"
        spec["sources"][p] = content
        spec["plans"]["."].insert(0, ["static", [p]])
        # Until a build has processed the new plan, StepUp cannot know about the adoption: an
        # unedited file is then still an unmodified former output (the static role in the
        # tables is what protects it afterwards, see judge_removed).
        if edited:
            ledger.user[p] = "former output adopted as a static file and edited"
        ledger.adopted.add(p)
        return f"adopt {p} as static, drop step {sid}", True
    if kind == "stray_file":
        dirs = sorted({os.path.dirname(p) for p in outs if os.path.dirname(p)}) or ["out"]
        d = rng.choice(dirs)
        p = os.path.join(d, f"notes{rng.randrange(100)}.txt")
        os.makedirs(d, exist_ok=True)
        H.write_file(p, "the user's notes\n")
        ledger.user[p] = "stray user file in an output directory"
        return f"stray file {p}", False
    if kind == "modify_volatile_and_drop" and vols:
        p = rng.choice(vols)
        H.write_file(p, "volatile file changed by the user\n")
        sid = drop_step_of(spec, p)
        return f"modify volatile {p} and drop step {sid}", sid is not None
    if kind == "delete_output" and regular:
        p = rng.choice(regular)
        os.unlink(p)
        return f"user deletes {p}", False
    return None, False


# ---------------------------------------------------------------------------------------------


def judge_removed(ledger, removed, before_files, snap_before, snap_after, unsafe, what, vio, counters,
                  classes, tag):
    static_labels = set()
    for snap in (snap_before, snap_after):
        if snap is None:
            continue
        for fi, (state, _h) in snap["file"].items():
            if state in STATIC and not snap["node"][fi][3]:
                static_labels.add(snap["node"][fi][1])
    recorded = {}
    for snap in (snap_before, snap_after):
        if snap is None:
            continue
        for fi, (state, hash_json) in snap["file"].items():
            if hash_json:
                try:
                    import base64
                    dig = base64.b85decode(json.loads(hash_json)["digest"]).hex()[:16]
                except Exception:  # noqa: BLE001
                    continue
                recorded.setdefault(snap["node"][fi][1], set()).add(dig)
    for p in removed:
        counters["paths_removed_judged"] += 1
        if p in static_labels:
            vio("static file deleted", f"{what}: {p}")
            kind = "static"
        elif p in ledger.user and not (unsafe and "overwritten by the user" in ledger.user[p]):
            vio("user file deleted", f"{what}: {p} ({ledger.user[p]})")
            kind = "user"
        elif p in ledger.user:
            kind = "modified-unsafe"
        elif p not in ledger.ever_product:
            vio("path that was never declared as an output deleted", f"{what}: {p}")
            kind = "undeclared"
        elif p in ledger.ever_volatile:
            kind = "volatile"
        elif before_files[p] != ledger.written.get(p) and before_files[p] not in recorded.get(p, ()) and not unsafe:
            vio("modified output deleted", f"{what}: {p} held {before_files[p]}, the step wrote "
                f"{ledger.written.get(p)}, StepUp had recorded {sorted(recorded.get(p, ()))}")
            kind = "modified"
        elif before_files[p] != ledger.written.get(p) and not unsafe:
            # what StepUp last recorded for the path (e.g. the content found there after its step
            # failed), not what a command wrote: allowed by the property, counted
            counters["removed_recorded_but_not_written"] = counters.get("removed_recorded_but_not_written", 0) + 1
            kind = "recorded"
        else:
            kind = "output"
        classes.add(repr((tag, "removed", kind)))


def run_clean_cli(args, timeout=120):
    env = dict(os.environ)
    for k in list(env):
        if k.startswith("STEPUP_") or k in ("HERE", "ROOT"):
            del env[k]
    proc = subprocess.run(["/venv/bin/stepup", "clean", *args], env=env, capture_output=True, text=True,
                          timeout=timeout)
    return proc


def run_history(case, check07=None):
    """The shared engine: returns the result dict.  `check07(ctx)` is called after every build."""
    rng = random.Random(case["seed"])
    counters = dict.fromkeys(["evaluations", "build_errors", "removed_reports", "dirs_removed",
                              "clean_dry_runs", "clean_cli_errors"] + REQUIRED_COUNTERS, 0)
    extra_counters = {}
    violations = []
    classes = set()
    notes = []
    witness = {"case": case["id"]}

    def vio(mechanism, message):
        if sum(1 for v in violations if v["mechanism"] == mechanism) < 2:
            violations.append({"mechanism": mechanism, "message": f"{case['id']}: {message}",
                               "witness": json.loads(json.dumps(witness, default=str))})

    for h in range(2):
        sub = f"p{h}"
        os.makedirs(sub)
        cwd = os.getcwd()
        os.chdir(sub)
        try:
            spec = gen.gen_project(rng, prob={"optional": 0.4})
            ledger = Ledger()
            nphase = rng.randint(2, 5)
            memory = {}
            cur = json.loads(json.dumps(spec))
            files = None
            snap_prev = None
            log = []
            witness.update({"spec": spec, "log": log})
            for k in range(nphase + 1):
                action = None
                late_writes = []
                if k:
                    # plan / source edits of the generator
                    edits = []
                    for _ in range(rng.choice([0, 1, 1, 2])):
                        kind = rng.choice(gen.EDIT_KINDS)
                        if memory.get("dropped") and rng.random() < 0.3:
                            kind = "readd_step"
                        desc = gen.apply_edit(rng, cur, kind, memory)
                        if desc is not None:
                            edits.append([kind, desc])
                    # a user action on disk (may also edit the plan)
                    files_now, _d = tree(".")
                    kind = rng.choice(USER_ACTIONS)
                    action, _changed = apply_user_action(rng, kind, cur, ledger, files_now, snap_prev, late_writes)
                    if action:
                        counters["user_actions"] += 1
                        if "overwrite" in action:
                            counters["modified_outputs_at_risk"] += 1
                        if "stray" in action:
                            counters["strays_at_risk"] += 1
                        if "adopt" in action:
                            counters["adopted_at_risk"] += 1
                    log.append({"phase": k, "edits": edits, "user": action})
                ledger.note_user_files(cur)
                files = gen.render(cur, previous=files)
                cfg = {"njob": rng.choice([1, 2, 3]), "resources": "cpu:2,gpu:2"}
                r = rng.random()
                if r < 0.15:
                    cfg["clean"] = False
                elif r < 0.3:
                    outs = sorted(gen.declared_outputs(cur))
                    if outs and rng.random() < 0.5:
                        cfg["targets"] = [rng.choice(outs)]
                    elif outs:
                        dirs = sorted({os.path.dirname(p) + "/" for p in outs if os.path.dirname(p)})
                        if dirs:
                            cfg["target_dirs"] = [rng.choice(dirs)]
                elif r < 0.4:
                    cfg["keep_going"] = True
                before_files, before_dirs = tree(".")
                b = H.run_build(cfg, ctl=LateUser(rng.choice(["free", "jitter"]), rng.randrange(1 << 30), late_writes),
                                env=dict(cur.get("env", {})), timeout=60)
                counters["builds"] += 1
                counters["invocations"] += 1
                counters["evaluations"] += 1
                log.append({"build": k, "cfg": cfg, "rc": str(b.returncode), "error": b.error and b.error[0]})
                if b.error is not None:
                    counters["build_errors"] += 1
                    break
                after_files, after_dirs = tree(".")
                snap = c04.db_snapshot()
                ledger.note_build(b, snap, before_dirs, after_dirs)
                removed = sorted(p for p in before_files if p not in after_files)
                reports = [str(e["args"][1]) for e in b.events if e["type"] == "report" and e["name"] == "report"
                           and e["args"][0] == "REMOVE"]
                counters["removed_reports"] += len(reports)
                counters["dirs_removed"] += len(before_dirs - after_dirs)
                rc = b.returncode.value
                tag = ("build", "noclean" if cfg.get("clean") is False else "clean",
                       "targets" if cfg.get("targets") else ("target_dirs" if cfg.get("target_dirs") else "all"), "ok" if (rc & ~8) == 0 else "notok",
                       (action or "none").split(" ")[0])
                what = f"{sub} build {k} cfg={cfg} rc={b.returncode} after {action!r}"
                # what a removed path held when it was removed: what a step of this build wrote
                # last, or else what it held before the build
                held = dict(before_files)
                for ev in b.events:
                    if ev["type"] in ("write",) and ev["path"] in held:
                        held[ev["path"]] = ev["digest"]
                    elif ev["type"] == "late_user_write" and ev["path"] in held:
                        held[ev["path"]] = H.digest_of(ev["path"]) or "user"
                judge_removed(ledger, removed, held, snap_prev, snap, False, what, vio, counters, classes, tag)
                must_not = (rc & ~8) != 0 or cfg.get("targets") or cfg.get("target_dirs") or cfg.get("clean") is False
                if must_not:
                    counters["builds_that_must_not_clean"] += 1
                    gone = removed + sorted(before_dirs - after_dirs)
                    if gone:
                        why = ("cleaning was disabled" if cfg.get("clean") is False else
                               "the build was restricted to targets" if cfg.get("targets") or cfg.get("target_dirs") else
                               "the build was incomplete")
                        vio("automatic cleaning removed something although " + why, f"{what}: {gone[:4]}")
                for p in reports:
                    if os.path.lexists(p.rstrip("/")):
                        vio("REMOVE reported for a path that is still there", f"{what}: {p}")
                classes.add(repr(tag))
                if check07 is not None:
                    check07({"ledger": ledger, "build": b, "cfg": cfg, "snap": snap, "snap_prev": snap_prev,
                             "before_files": before_files, "after_files": after_files,
                             "after_dirs": after_dirs, "before_dirs": before_dirs, "spec": cur, "what": what,
                             "vio": vio, "counters": extra_counters, "classes": classes, "action": action})
                snap_prev = snap
                # -- `stepup clean` now and then -------------------------------------------------------
                if rng.random() < 0.35:
                    args = []
                    commit = rng.random() < 0.7
                    if commit:
                        args.append("--commit")
                    if rng.random() < 0.4:
                        args.append("--all")
                    unsafe = rng.random() < 0.2
                    if unsafe:
                        args.append("--unsafe")
                    if rng.random() < 0.4:
                        cand = sorted(after_files) + sorted(after_dirs)
                        args += rng.sample(cand, min(len(cand), rng.randint(1, 2)))
                    bf, bd = tree(".")
                    proc = run_clean_cli(args)
                    counters["clean_runs"] += 1
                    counters["invocations"] += 1
                    af, ad = tree(".")
                    removed = sorted(p for p in bf if p not in af)
                    what = f"{sub} after build {k}: stepup clean {' '.join(args)} (exit {proc.returncode})"
                    log.append({"clean": args, "rc": proc.returncode, "removed": removed[:6]})
                    if proc.returncode != 0:
                        # not a deletion: counted and shown in the evidence, judged like any run
                        counters["clean_cli_errors"] += 1
                        notes.append(f"{what}: {proc.stderr.strip().splitlines()[-1][:200] if proc.stderr.strip() else ''}")
                    if not commit:
                        counters["clean_dry_runs"] += 1
                        if removed or bd - ad:
                            vio("stepup clean without --commit removed something", f"{what}: {removed[:4]}")
                    tagc = ("clean", "commit" if commit else "dry", "all" if "--all" in args else "detached",
                            "unsafe" if unsafe else "safe")
                    judge_removed(ledger, removed, bf, snap, snap, unsafe, what, vio, counters, classes, tagc)
                    if "--all" not in args and commit:
                        # only outputs for which there is no longer a step
                        attached_products = {snap["node"][fi][1] for fi, (state, _h) in snap["file"].items()
                                             if state in PRODUCT and not snap["node"][fi][3]}
                        for p in removed:
                            if p in attached_products:
                                vio("stepup clean without --all removed an output of a step that is still defined",
                                    f"{what}: {p}")
                    classes.add(repr(tagc))
        finally:
            os.chdir(cwd)
            shutil.rmtree(sub, ignore_errors=True)
    counters.update(extra_counters)
    return {"status": "violation" if violations else "held", "violations": violations,
            "counters": counters, "nontrivial": sorted(classes), "nontrivial_many": True,
            "sample": {"case": case["id"], "classes": sorted(classes)[:4], "notes": notes[:2]}}


def run_case(case):
    return run_history(case)
