"""C05: a build killed at any point is completed correctly after restart.

Fault injection on the real code: the director and its (simulated, in-process) steps run in a
child process (`vmon.crashchild`) that sends itself SIGKILL
  - right after the n-th committed database transaction (startup, build and cleanup included),
  - at the n-th scheduling point between two actions of any running step,
  - right after the n-th file a step wrote.
The same project state is then built again without interruption, in-process and monitored
(STEPUP_DEBUG=1 makes the director run its own consistency check when it opens the database).

Oracles on the restarted build
  opens     no exception from serve(), no ERROR report
  equal     files on disk and canonical graph text equal those of the uninterrupted reference
            build of the same state (so nothing the reference removed is left behind)
  rerun     a command that was running when the process died, and whose step is SUCCEEDED in the
            end, was started again by the restarted build (never skipped as up to date)
"""

from __future__ import annotations

import json
import os
import random
import shutil
import subprocess
import sys

from vmon import gen, harness as H
from vmon.checks import c01

PROPERTY = "C05"
LEVEL = "exploration"
RULE = "distinct (kind of crash point, phase of the build it fell in, number of commands running) kills followed by a restart"
TIMEOUT = 1200
REQUIRED_COUNTERS = ["projects", "kills", "kills_after_commit", "kills_at_gate", "kills_after_write",
                     "restarts_compared", "kills_with_running_commands", "interrupted_steps_checked",
                     "kills_during_cleanup", "kills_during_startup"]
ASSUMPTIONS = ["mode A: the steps die with the director because they live in its process",
               "SIGKILL of the process; power loss (loss of what the OS had not written yet) is out of reach"]

ORPHAN_MECH = ("killed between the commit that deletes detached nodes (or reverts optional steps) and "
               "the removal of their files: the files stay forever")


def gen_cases(tier, seed):
    n = 12 if tier == "quick" else 160
    per = 10 if tier == "quick" else 40
    cases = [{"id": f"c05-{seed}-{i}", "seed": seed * 7001 + i, "points": per} for i in range(n)]
    # a sub-plan that is deferred once and run again while the steps it created are running:
    # every scheduling point (and, in the thorough tier, every commit) is a crash point
    cases += [{"id": f"c05-deferred-subplan-{seed}-{i}", "seed": seed * 7001 + 5000 + i, "points": per,
               "scenario": "deferred_subplan", "all_commits": tier != "quick"} for i in range(2 if tier == "quick" else 6)]
    # a step defined again under the same label with another output, detached a second time while
    # it runs after the restart (needs the slow hash thread of the restarted director)
    cases += [{"id": f"c05-redefined-output-{seed}-{i}", "seed": seed * 7001 + 6000 + i, "points": per,
               "scenario": "redefined_output", "repeat": 2 if tier == "quick" else 6}
              for i in range(2 if tier == "quick" else 6)]
    # the same project killed in its first build, edited (the output moves), then restarted
    cases += [{"id": f"c05-edit-after-kill-{seed}-{i}", "seed": seed * 7001 + 7000 + i, "points": per,
               "scenario": "edit_after_kill", "repeat": 2 if tier == "quick" else 6}
              for i in range(2 if tier == "quick" else 6)]
    # kills during the watch phase, the rebuild it triggers and the shutdown of a watching director
    cases += [{"id": f"c05-watch-{seed}-{i}", "seed": seed * 7001 + 8000 + i, "points": per, "kind": "watch"}
              for i in range(4 if tier == "quick" else 60)]
    return cases


def run_watch_case(case):
    """A director in watch mode: first build, file-system events (those of C14), rebuild, shutdown.
    Killed after a commit or at a scheduling point that follows the start of the watch phase, then
    restarted without watch mode.  Reference: the same session uninterrupted, followed by the same
    plain restart."""
    from vmon.checks import c14
    rng = random.Random(case["seed"])
    counters = dict.fromkeys(["evaluations", "probe_failures", "child_not_killed", "watch_sessions",
                              "watch_kills", "watch_kills_in_watch_phase", "watch_kills_in_rebuild",
                              "watch_kills_at_shutdown", "watch_restarts_compared", "watch_fs_events",
                              "watch_known_order_difference", "graph_compared"] + REQUIRED_COUNTERS, 0)
    violations = []
    classes = set()
    witness = {"case": case["id"]}

    def vio(mechanism, message):
        if sum(1 for v in violations if v["mechanism"] == mechanism) < 2:
            violations.append({"mechanism": mechanism, "message": f"{case['id']}: {message}",
                               "witness": json.loads(json.dumps(witness, default=str))})

    spec = gen.gen_project(rng)
    env = dict(spec.get("env", {}))
    cfg = {"njob": rng.choice([1, 2, 3]), "resources": "cpu:2,gpu:2", "watch": True}
    plain = {k: v for k, v in cfg.items() if k != "watch"}
    wspec = {"seed": rng.randrange(1 << 30), "nev": rng.choice([1, 2, 2, 3]),
             "user_files": sorted(gen.user_files(spec))}
    witness.update({"spec": spec, "watch": {k: wspec[k] for k in ("seed", "nev")}})
    counters["projects"] += 1
    cwd = os.getcwd()
    os.makedirs("base")
    try:
        os.chdir("base")
        gen.render(spec)
        os.chdir(cwd)
        shutil.copytree("base", "ref", symlinks=True)
        os.chdir("ref")
        proc, events = run_child({"cfg": cfg, "policy": "free", "seed": 1, "env": env, "crash": None, "watch": wspec})
        done = [e for e in events if e["type"] == "done"]
        start = [e for e in events if e["type"] == "watch_start"]
        rebuild = [e for e in events if e["type"] == "rebuild_start"]
        rebuilt = [e for e in events if e["type"] == "rebuild_end"]
        if proc.returncode != 0 or not done or done[0]["error"] or not start or not rebuild or not rebuilt:
            counters["probe_failures"] += 1
            os.chdir(cwd)
            return {"status": "inconclusive", "violations": [], "counters": counters,
                    "reason": f"reference watch session failed rc={proc.returncode}: {proc.stderr[-500:]} {done[:1]}"}
        counters["watch_sessions"] += 1
        fs_events = [e["desc"] for e in events if e["type"] == "fs_event" and e["desc"]]
        counters["watch_fs_events"] += len(fs_events)
        witness["fs_events"] = fs_events
        rb = H.run_build(plain, ctl=H.Controller("free", 1), env=env, timeout=90)
        if rb.error is not None:
            counters["probe_failures"] += 1
            os.chdir(cwd)
            return {"status": "inconclusive", "violations": [], "counters": counters,
                    "reason": f"restart after the reference session failed: {rb.error[0]}"}
        ref_rc = rb.returncode.value
        ref_tree = c14.tree(".")
        ref_graph, ref_globs = H.graph_text(attached_only=True)
        os.chdir(cwd)
        applied = [e for e in events if e["type"] == "events_applied"][0]
        # crash points are counted from the moment the events are on disk: the number of commits of
        # the first build phase may differ between two runs
        c0 = applied["commits"]
        c_rb, c_end, c1 = rebuild[0]["commits"] - c0, rebuilt[0]["commits"] - c0, done[0]["commits"] - c0
        g1 = done[0]["gates"] - applied["gates"]
        commits = list(range(1, c1 + 1))
        rng.shuffle(commits)
        budget = case["points"]
        points = [{"commit_after_events": n} for n in sorted(set(commits[:budget] + list(range(c1 - 2, c1 + 1))))
                  if 0 < n <= c1]
        gates = list(range(1, g1 + 1))
        points += [{"gate_after_events": n} for n in rng.sample(gates, min(len(gates), max(2, budget // 3)))]
        for point in points:
            shutil.rmtree("crash", ignore_errors=True)
            shutil.copytree("base", "crash", symlinks=True)
            os.chdir("crash")
            try:
                proc, events = run_child({"cfg": cfg, "policy": "free", "seed": 1, "env": env,
                                          "crash": point, "watch": wspec})
                killed = [e for e in events if e["type"] == "killed"]
                if proc.returncode != -9 or not killed:
                    counters["child_not_killed"] += 1
                    continue
                counters["kills"] += 1
                counters["watch_kills"] += 1
                kind = next(iter(point)).split("_")[0]
                counters["kills_after_commit" if kind == "commit" else "kills_at_gate"] += 1
                if kind == "commit":
                    n = point["commit_after_events"]
                    ph = "watch phase" if n <= c_rb else ("rebuild" if n <= c_end else "shutdown")
                else:
                    ph = "rebuild"
                counters[{"watch phase": "watch_kills_in_watch_phase", "rebuild": "watch_kills_in_rebuild",
                          "shutdown": "watch_kills_at_shutdown"}[ph]] += 1
                if ph == "shutdown":
                    counters["kills_during_cleanup"] += 1
                if any(e["type"] == "cmd_start" for e in events) and kind == "gate":
                    counters["kills_with_running_commands"] += 1
                classes.add(repr(("watch", kind, ph)))
                what = f"watch session with events {fs_events}: killed {killed[0]['why']} ({ph})"
                b = H.run_build(plain, ctl=H.Controller("free", 1), env={**env, "STEPUP_DEBUG": "1"}, timeout=90)
                counters["evaluations"] += 1
                if b.error is not None:
                    vio("restarted build raised", f"{what}: {b.error[0]}: {str(b.error[1])[-700:]}")
                    continue
                errors = [str(e["args"][1])[:300] for e in b.events if e["type"] == "report" and e["name"] == "report"
                          and e["args"][0] == "ERROR"]
                if errors:
                    vio("restarted build reported an error", f"{what}: {errors[:2]}")
                counters["restarts_compared"] += 1
                counters["watch_restarts_compared"] += 1
                graph, globs = H.graph_text(attached_only=True)
                order = graph != ref_graph and c14.classify_graph_difference(ref_graph, graph) == c14.ORDER_MECH
                if order:
                    # the listed C14 finding: how far "pending" spreads depends on the order in
                    # which a batch of changes is applied (watcher: observation order, startup scan:
                    # its own order); not a consequence of the kill
                    counters["watch_known_order_difference"] += 1
                    continue
                if b.returncode.value != ref_rc:
                    vio("restarted build ends with another status than the uninterrupted build",
                        f"{what}: {b.returncode} versus {ref_rc}")
                    continue
                now = c14.tree(".")
                now.pop(".crash-events.jsonl", None)
                diff = sorted(p for p in set(now) | set(ref_tree) if now.get(p) != ref_tree.get(p))
                if diff:
                    vio("outputs after the restart differ from the uninterrupted build", f"{what}: {diff[:4]}")
                counters["graph_compared"] += 1
                if graph != ref_graph or globs != ref_globs:
                    ga, gb = set(ref_graph.split("\n\n")), set(graph.split("\n\n"))
                    vio("workflow graph after the restart differs from the uninterrupted build",
                        f"{what}: only reference {[x[:200] for x in sorted(ga - gb)[:2]]} only restart {[x[:200] for x in sorted(gb - ga)[:2]]}")
            finally:
                os.chdir(cwd)
    finally:
        os.chdir(cwd)
        for d in ("base", "ref", "crash"):
            shutil.rmtree(d, ignore_errors=True)
    return {"status": "violation" if violations else "held", "violations": violations,
            "counters": counters, "nontrivial": sorted(classes), "nontrivial_many": True,
            "sample": {"case": case["id"], "classes": sorted(classes)[:4]}}


def directed_redefined_output(hold):
    """A step D that defines a slow step T; in the build under test T's output has moved, so D
    defines T again under the same label with another output.  Killed while both run, D runs again
    after the restart and detaches the running T a second time."""
    steps = {
        "D": {"kind": "prog", "inp": ["src/a.txt"], "out": ["out/d.txt"], "defines": ["T"],
              "hold_defines": hold, "gates_before": 2, "gates_after": 2},
        "T": {"kind": "prog", "inp": ["src/a.txt"], "out": ["out/t.txt"], "gates_before": 2},
        "U": {"kind": "do", "salt": "", "inp": ["src/a.txt"], "out": ["out/u.txt"]},
    }
    spec = {"sources": {"src/a.txt": "a\n"}, "env": {}, "steps": steps, "order": ["D", "T", "U"],
            "plans": {".": [["static", ["src/a.txt", "progs/D.json", "progs/T.json"]], ["step", "D"], ["step", "U"]]}}
    moved = json.loads(json.dumps(spec))
    moved["steps"]["T"]["out"] = ["out/moved/t.txt"]
    return spec, [{"spec": moved, "edits": ["move output of T to out/moved/t.txt"]}]


def run_child(spec, timeout=180):
    proc = subprocess.run([sys.executable, "-m", "vmon.crashchild", json.dumps(spec)],
                          capture_output=True, text=True, timeout=timeout)
    events = []
    if os.path.exists(".crash-events.jsonl"):
        with open(".crash-events.jsonl") as fh:
            for line in fh:
                try:
                    events.append(json.loads(line))
                except ValueError:
                    pass
        os.unlink(".crash-events.jsonl")
    return proc, events


def tree(root="."):
    out = c01.tree_outputs(root)
    out.pop(".crash-events.jsonl", None)
    return out


def run_case(case):
    if case.get("kind") == "watch":
        return run_watch_case(case)
    rng = random.Random(case["seed"])
    counters = dict.fromkeys(["evaluations", "probe_failures", "child_not_killed", "restart_rc_nonzero",
                              "graph_compared", "files_compared", "restarts_with_slow_hash_threads", "restarts_after_an_edit",
                              "edited_restarts_compared", "edited_restart_leftovers", "graceful_stops"] + REQUIRED_COUNTERS, 0)
    violations = []
    classes = set()
    witness = {"case": case["id"]}

    def vio(mechanism, message):
        if sum(1 for v in violations if v["mechanism"] == mechanism) < 2:
            violations.append({"mechanism": mechanism, "message": f"{case['id']}: {message}",
                               "witness": json.loads(json.dumps(witness, default=str))})

    if case.get("scenario") == "deferred_subplan":
        from vmon.checks.c02 import directed_deferred_subplan
        spec = directed_deferred_subplan()
        # a slow step created by the sub-plan: still running (and detached) when the sub-plan
        # is dispatched again
        slow = [{"a": "read", "path": "src/a.txt"}] + [{"a": "gate", "name": f"slow{k}"} for k in range(10)] + \
            [{"a": "write", "path": "out/slow.txt"}]
        spec["plans"]["sub"].insert(0, ["raw", {"a": "step", "cmd": "do " + json.dumps(slow),
                                                "inp": ["src/a.txt"], "out": ["out/slow.txt"]}])
        phases = []
    elif case.get("scenario") == "redefined_output":
        spec, phases = directed_redefined_output(rng.random() < 0.5)
    elif case.get("scenario") == "edit_after_kill":
        spec, later = directed_redefined_output(rng.random() < 0.5)
        phases = []
        extra_phase = later[0]
    else:
        spec = gen.gen_project(rng, prob={"optional": 0.4, "hold": 0.4, "hold_defines": 0.6, "defines": 0.4})
        phases = gen.gen_history(rng, spec, nphase=rng.choice([0, 1, 1, 2]), breaks=0.2)
    if not case.get("scenario"):
        # an edit the user may make between the kill and the restart
        more = gen.gen_history(random.Random(case["seed"] + 17), phases[-1]["spec"] if phases else spec, nphase=1)
        extra_phase = more[0] if more else None
    elif case.get("scenario") != "edit_after_kill":
        extra_phase = None
    env = dict(spec.get("env", {}))
    witness.update({"spec": spec, "phases": [p["edits"] for p in phases],
                    "edit_after_kill": extra_phase["edits"] if extra_phase else None})
    counters["projects"] += 1
    cfg = {"njob": rng.choice([1, 2, 3]), "resources": "cpu:2,gpu:2"}
    if case.get("scenario"):
        cfg["njob"] = rng.choice([3, 4])
    os.makedirs("base")
    cwd = os.getcwd()
    try:
        # -- the state before the build under test ----------------------------------------------------
        os.chdir("base")
        files = gen.render(spec)
        cur = spec
        for ph in phases:
            b = H.run_build(cfg, ctl=H.Controller("free", 1), env=dict(cur.get("env", {})), timeout=60)
            if b.error is not None:
                return {"status": "inconclusive", "reason": f"preparation build failed: {b.error[0]}",
                        "violations": [], "counters": counters}
            cur = ph["spec"]
            files = gen.render(cur, previous=files)
        env = dict(cur.get("env", {}))
        os.chdir(cwd)
        # -- uninterrupted reference, also tells how many crash points there are -------------------------
        shutil.copytree("base", "ref", symlinks=True)
        os.chdir("ref")
        proc, events = run_child({"cfg": cfg, "policy": "free", "seed": 1, "env": env, "crash": None})
        done = [e for e in events if e["type"] == "done"]
        if proc.returncode != 0 or not done or done[0]["error"]:
            counters["probe_failures"] += 1
            os.chdir(cwd)
            return {"status": "inconclusive", "violations": [], "counters": counters,
                    "reason": f"reference child failed rc={proc.returncode}: {proc.stderr[-600:]} {done[:1]}"}
        done = done[0]
        ref_tree = tree(".")
        ref_graph, ref_globs = H.graph_text(attached_only=False)
        ref_rc = done["rc"]
        # the uninterrupted build followed by the edit and another build
        ref2 = None
        if extra_phase is not None:
            gen.render(extra_phase["spec"], previous=files)
            b2 = H.run_build(cfg, ctl=H.Controller("free", 1), env=dict(extra_phase["spec"].get("env", {})), timeout=90)
            if b2.error is None:
                ref2 = [{"tree": tree("."), "rc": b2.returncode.value}]
                # ... and a build from scratch of the edited project: what the killed build had done
                # lies between the two, and where they differ (a listed C01 finding: what a build
                # remembers of optional steps) either of them is accepted
                os.chdir(cwd)
                os.makedirs("scratch")
                os.chdir("scratch")
                gen.render(extra_phase["spec"])
                b3 = H.run_build(cfg, ctl=H.Controller("free", 1), env=dict(extra_phase["spec"].get("env", {})), timeout=90)
                if b3.error is None:
                    ref2.append({"tree": tree("."), "rc": b3.returncode.value})
                os.chdir(cwd)
                shutil.rmtree("scratch", ignore_errors=True)
                os.chdir("ref")
        # which commit numbers fall into startup / build / cleanup
        phase_of_commit = {}
        phase = "startup"
        for e in events:
            if e["type"] == "report" and e["tag"] == "PHASE":
                phase = "build"
            if e["type"] == "report" and e["tag"] == "REMOVE":
                phase = "cleanup"
            if e["type"] == "commit":
                phase_of_commit[e["n"]] = phase
        last_cmd_end = max([i for i, e in enumerate(events) if e["type"] == "cmd_end"], default=-1)
        tail_commits = [e["n"] for i, e in enumerate(events) if e["type"] == "commit" and i > last_cmd_end]
        for n in tail_commits:
            phase_of_commit[n] = "cleanup"
        os.chdir(cwd)
        # -- crash points --------------------------------------------------------------------------------
        points = []
        ncommit, ngate, nwrite = done["commits"], done["gates"], done["writes"]
        commits = list(range(1, ncommit + 1))
        rng.shuffle(commits)
        budget = case["points"]
        # always some from the cleanup tail and the startup head
        pick = sorted(set(tail_commits[-4:] + commits[: max(2, budget // 2)] + [1, 2, 3]))
        points += [{"commit": n} for n in pick if 1 <= n <= ncommit]
        if case.get("scenario"):
            points = [{"gate": n} for n in range(1, ngate + 1)]
            if case.get("all_commits"):
                points += [{"commit": n} for n in range(1, ncommit + 1)]
        else:
            points += [{"gate": n} for n in rng.sample(range(1, ngate + 1), min(ngate, max(2, budget // 4)))]
        points += [{"after_write": n} for n in rng.sample(range(1, nwrite + 1), min(nwrite, max(1, budget // 4)))]
        # a graceful stop requested by the user (running steps finish, nothing new starts)
        points += [{"shutdown_gate": n} for n in rng.sample(range(1, ngate + 1), min(ngate, max(1, budget // 8)))]
        points = points * case.get("repeat", 1)
        for point in points:
            shutil.rmtree("crash", ignore_errors=True)
            shutil.copytree("base", "crash", symlinks=True)
            os.chdir("crash")
            try:
                policy = rng.choice(["serial", "serial", "jitter"]) if case.get("scenario") else \
                    rng.choice(["free", "jitter"])
                proc, events = run_child({"cfg": cfg, "policy": policy,
                                          "seed": rng.randrange(1 << 30), "env": env, "crash": point})
                killed = [e for e in events if e["type"] == "killed"]
                kind = next(iter(point))
                if kind == "shutdown_gate":
                    stopped = [e for e in events if e["type"] == "shutdown_requested"]
                    fin = [e for e in events if e["type"] == "done"]
                    if proc.returncode != 0 or not stopped or not fin or fin[0]["error"]:
                        if stopped:
                            vio("director does not stop cleanly when asked to",
                                f"shutdown requested at gate {point['shutdown_gate']}: rc={proc.returncode} "
                                f"{fin[:1]} {proc.stderr[-400:]}")
                        counters["child_not_killed"] += 1
                        continue
                    counters["graceful_stops"] += 1
                    killed = [{"why": f"stopped on request at gate {point['shutdown_gate']}"}]
                elif proc.returncode != -9 or not killed:
                    counters["child_not_killed"] += 1
                    continue
                else:
                    counters["kills"] += 1
                    counters[{"commit": "kills_after_commit", "gate": "kills_at_gate",
                              "after_write": "kills_after_write"}[kind]] += 1
                ph = phase_of_commit.get(point.get("commit"), "build") if kind == "commit" else "build"
                if ph == "cleanup":
                    counters["kills_during_cleanup"] += 1
                if ph == "startup":
                    counters["kills_during_startup"] += 1
                started = {}
                for e in events:
                    if e["type"] == "cmd_start":
                        started[e["job"]] = e["step"]
                    elif e["type"] == "cmd_end":
                        started.pop(e["job"], None)
                running = sorted(set(started.values()))
                if running:
                    counters["kills_with_running_commands"] += 1
                classes.add(repr((kind, ph, min(len(running), 3))))
                what = f"killed {killed[0]['why']} ({ph}), running: {[r[:50] for r in running]}"
                if kind == "shutdown_gate":
                    what = killed[0]["why"]
                # -- restart ---------------------------------------------------------------------------
                # the restarted director may be slow to start its hash threads (an injected delay at
                # that suspension point): a step and the step that defines it then overlap more
                edited = ref2 is not None and (case.get("scenario") == "edit_after_kill" or rng.random() < 0.25)
                env_restart = env
                if edited:
                    gen.render(extra_phase["spec"], previous=files)
                    env_restart = dict(extra_phase["spec"].get("env", {}))
                    counters["restarts_after_an_edit"] += 1
                cfg_restart = dict(cfg)
                if case.get("scenario") in ("redefined_output", "edit_after_kill") or rng.random() < 0.5:
                    cfg_restart["thread_delay"] = {"p": rng.choice([0.3, 1.0]), "max": 0.03,
                                                   "seed": rng.randrange(1 << 30)}
                b = H.run_build(cfg_restart, ctl=H.Controller(rng.choice(["free", "jitter"]), rng.randrange(1 << 30)),
                                env={**env_restart, "STEPUP_DEBUG": "1"}, timeout=90)
                counters["evaluations"] += 1
                counters["restarts_with_slow_hash_threads"] += 1 if b.thread_delays else 0
                if edited:
                    what += f", then edited ({extra_phase['edits']})"
                if b.error is not None:
                    vio("restarted build raised", f"{what}: {b.error[0]}: {str(b.error[1])[-700:]}")
                    continue
                errors = [str(e["args"][1])[:300] for e in b.events if e["type"] == "report" and e["name"] == "report"
                          and e["args"][0] == "ERROR"]
                if errors:
                    vio("restarted build reported an error", f"{what}: {errors[:2]}")
                rc = b.returncode.value
                if edited:
                    # Judged on what holds whatever the user did in between: no internal error (above),
                    # the same status and the same outputs as the uninterrupted build, the edit and
                    # another build.  The graph is not compared: what a build remembers about steps
                    # that no plan defines any more depends on when they were dropped.
                    same_rc = [r for r in ref2 if r["rc"] == rc]
                    if not same_rc:
                        vio("restart after an edit ends with another status than the uninterrupted history",
                            f"{what}: {b.returncode} versus {[r['rc'] for r in ref2]}")
                        continue
                    now = tree(".")
                    counters["edited_restarts_compared"] += 1
                    if rc == 0:
                        # a file of a step that was killed and that the edit drops may stay: StepUp
                        # only removes what it has recorded.  Counted, not judged.
                        diffs = [sorted(p for p in r["tree"] if now.get(p) != r["tree"][p]) for r in same_rc]
                        counters["edited_restart_leftovers"] += sum(1 for p in now if p not in same_rc[0]["tree"])
                        if all(diffs):
                            vio("outputs after a restart that follows an edit differ from the uninterrupted history",
                                f"{what}: {diffs[0][:4]}")
                    continue
                if rc != ref_rc:
                    counters["restart_rc_nonzero"] += 1
                    vio("restarted build ends with another status than the uninterrupted build",
                        f"{what}: {b.returncode} versus {ref_rc}")
                    continue
                counters["restarts_compared"] += 1
                now = tree(".")
                counters["files_compared"] += len(now)
                extra = sorted(p for p in now if p not in ref_tree)
                missing = sorted(p for p in ref_tree if p not in now)
                differ = sorted(p for p in now if p in ref_tree and now[p] != ref_tree[p])
                if extra:
                    mech = ORPHAN_MECH if ph == "cleanup" else \
                        "file left behind after the restart that the uninterrupted build does not leave"
                    vio(mech, f"{what}: {extra[:4]}")
                if missing or differ:
                    vio("outputs after the restart differ from the uninterrupted build",
                        f"{what}: missing {missing[:3]} different {differ[:3]}")
                graph, globs = H.graph_text(attached_only=False)
                counters["graph_compared"] += 1
                if graph != ref_graph or globs != ref_globs:
                    ga, gb = set(ref_graph.split("\n\n")), set(graph.split("\n\n"))
                    only_ref = sorted(ga - gb)
                    only_now = sorted(gb - ga)
                    mech = "workflow graph after the restart differs from the uninterrupted build"
                    if extra and ph == "cleanup" and all(x.startswith("(") for x in only_ref + only_now):
                        mech = ORPHAN_MECH
                    vio(mech, f"{what}: only reference {[x[:200] for x in only_ref[:2]]} only restart {[x[:200] for x in only_now[:2]]}")
                # interrupted commands must have been started again
                ran_again = {e["step"] for e in b.events if e["type"] == "cmd_start"}
                snap_states = {}
                import sqlite3
                con = sqlite3.connect("file:.stepup/graph.db?mode=ro", uri=True)
                try:
                    for lab, det, state in con.execute(
                            "SELECT node.label, node.detached, step.state FROM step JOIN node ON node.i = step.node"):
                        if not det:
                            snap_states[lab] = state
                finally:
                    con.close()
                for lab in running:
                    if snap_states.get(lab) == 23:
                        counters["interrupted_steps_checked"] += 1
                        if lab not in ran_again:
                            vio("output of an interrupted command treated as up to date",
                                f"{what}: {lab[:100]!r} is SUCCEEDED after the restart without having been run again")
            finally:
                os.chdir(cwd)
    finally:
        os.chdir(cwd)
        for d in ("base", "ref", "crash"):
            shutil.rmtree(d, ignore_errors=True)
    return {"status": "violation" if violations else "held", "violations": violations,
            "counters": counters, "nontrivial": sorted(classes), "nontrivial_many": True,
            "sample": {"case": case["id"], "classes": sorted(classes)[:4]}}
