"""Debug helper: run C01-style histories and print invariant findings."""
import json, os, random, shutil, sys, tempfile
sys.path.insert(0, "/repo"); sys.path.insert(0, "/verif")
from vmon.checks import c01
from vmon import gen, harness as H, invariants as I
seed = int(sys.argv[1])
rng = random.Random(seed)
base = tempfile.mkdtemp(prefix="invdbg"); os.chdir(base)
def vio(*a): pass
found = []
def collect(mon, build, what):
    for f in mon.findings: found.append((what, f[0], f[1]))
ctx = {"counters": {"final_compared":0}, "vio": vio, "collect": collect}
for h in range(4):
    os.makedirs(f"h{h}"); os.chdir(f"h{h}")
    spec = gen.gen_project(rng); phases = gen.gen_history(rng, spec)
    c01.run_history(ctx, rng, spec, phases)
    for f in found: print(h, f[0], f[1], "\n    ", f[2][:1500])
    if found: print([p["edits"] for p in phases])
    found.clear()
    os.chdir(base)
shutil.rmtree(base, ignore_errors=True)
